#!/bin/bash
# Self-test of the checks in both directions (DESIGN.md §8):
#   mutants/*.diff  - property-breaking edits written for this purpose: the listed check must report them (exit 1)
#   benign/*.diff   - behaviour-preserving edits a maintainer could make: every check must stay quiet (exit 0)
# Each patch is applied to /repo's working tree, the quick checks run, and the patch is undone straight afterwards.
# usage: selftest/run.sh [mutants|benign|all] [--suite]     (--suite also runs the repository's own tests on each mutant)
cd /repo || exit 2
git diff --quiet || { echo "selftest: /repo has uncommitted changes"; exit 2; }
which=${1:-all}; suite=$2
out=/verif/selftest/RESULTS.txt
declare -A EXPECT=( [M01]="C05 C09" [M02]="C05" [M03]="C17" [M04]="C17" [M05]="C17" [M06]="C12" [M07]="C11" [M08]="C01" [M09]="C02" [M10]="C03" [M11]="C13" [M12]="C16" [M13]="C15" [M14]="C08" [M15]="C09" [M16]="C02" [M17]="C09" [M18]="C17" [M19]="C06" [M20]="C08 C06" [M21]="C05" )
ALL="C01 C02 C03 C04 C05 C06 C07 C08 C09 C10 C11 C12 C13 C14 C15 C16 C17"
run_checks() { # prints "id=exit" for each
  for id in $1; do (cd /verif && bin/vcheck $id --tier quick >/tmp/selftest.$id.out 2>&1); echo -n "$id=$? "; done
}
if [ "$which" = mutants ] || [ "$which" = all ]; then
  for p in /verif/selftest/mutants/*.diff; do
    n=$(basename $p .diff); k=${n%%-*}
    git apply $p || { echo "$n: patch does not apply" | tee -a $out; continue; }
    s=""
    if [ "$suite" = "--suite" ]; then s="suite: $(cargo nextest run --workspace --no-fail-fast --offline 2>&1 | grep -E 'tests run:' | tail -1 | sed 's/^ *//')"; fi
    r=$(run_checks "${EXPECT[$k]}")
    echo "MUTANT $n expected-to-alarm: $r $s" | tee -a $out
    git checkout -q -- . ; git reset -q
  done
fi
if [ "$which" = benign ] || [ "$which" = all ]; then
  for p in /verif/selftest/benign/*.diff; do
    n=$(basename $p .diff)
    git apply $p || { echo "$n: patch does not apply" | tee -a $out; continue; }
    s=""
    if [ "$suite" = "--suite" ]; then s="suite: $(cargo nextest run --workspace --no-fail-fast --offline 2>&1 | grep -E 'tests run:' | tail -1 | sed 's/^ *//')"; fi
    r=$(run_checks "$ALL")
    echo "BENIGN $n must-stay-quiet: $r $s" | tee -a $out
    for id in $ALL; do if ! grep -q "violations=0" /tmp/selftest.$id.out; then echo "   $id: $(grep -m2 -E 'VIOLATION|MACHINERY|key=' /tmp/selftest.$id.out | cut -c1-300 | tr '\n' ' ')" | tee -a $out; fi; done
    git checkout -q -- . ; git reset -q
  done
fi
echo "selftest finished $(date -u +%FT%TZ)" | tee -a $out
