"""E4 — configuration explorer: one generated program per `fake!` arm (C08), per signature pair
family (C09) and for the boolean gate (C10), each compiled by rustc *separately* against the
unmodified crate, so that accept/reject is an observation and not a build failure of the harness."""
import itertools, json, os, re, subprocess, sys, hashlib
from concurrent.futures import ThreadPoolExecutor
from vlib import *  # noqa: F401,F403

GEN = os.path.join(WORK, "e4")


def real_rlib(release=False):
    """Build the unmodified crate (harness/realcrate, verbatim copy of /repo/src) and return (rlib, deps dir).
    release=True: the release profile (debug assertions and overflow checks off)."""
    r = subprocess.run(["cargo", "build", "--offline", "-q", "-p", "injectorpp", "--message-format=json"] + (["--release"] if release else []),
                       cwd=HARNESS, env=env_offline(), capture_output=True, text=True)
    if r.returncode != 0:
        raise MachineryError("the unmodified crate does not build: " + r.stderr[-2000:])
    rlib = None
    for line in r.stdout.splitlines():
        try:
            m = json.loads(line)
        except Exception:
            continue
        if m.get("reason") == "compiler-artifact" and m.get("target", {}).get("name") == "injectorpp":
            for f in m.get("filenames", []):
                if f.endswith(".rlib"):
                    rlib = f
    if not rlib:
        raise MachineryError("rlib of the unmodified crate not found in cargo's output")
    return rlib, os.path.join(TARGET, "release" if release else "debug", "deps")


def rustc(src_path, out_path, rlib, deps):
    cmd = ["rustc", "--edition", "2021", "-C", "opt-level=0", "-C", "debuginfo=0", "-A", "warnings"] + (["-C", "debug-assertions=off"] if "/release/" in rlib else []) + [
           "--extern", f"injectorpp={rlib}", "-L", f"dependency={deps}", src_path, "-o", out_path]
    r = subprocess.run(cmd, capture_output=True, text=True, env=env_offline())
    return r.returncode, r.stderr


def build_many(programs, rlib, deps):
    """programs: {name: source}. Compiles those whose source changed. Returns {name: (ok, stderr, exe)}."""
    os.makedirs(GEN, exist_ok=True)
    res = {}

    def one(item):
        name, src = item
        h = hashlib.sha256((src + rlib + str(os.path.getmtime(rlib))).encode()).hexdigest()[:16]
        sp = os.path.join(GEN, f"{name}.rs")
        exe = os.path.join(GEN, f"{name}.bin")
        stamp = os.path.join(GEN, f"{name}.stamp")
        if os.path.exists(stamp) and open(stamp).read().startswith(h):
            txt = open(stamp).read()
            ok = txt[17:19] == "ok"
            return name, (ok, txt[20:], exe)
        with open(sp, "w") as f:
            f.write(src)
        rc, err = rustc(sp, exe, rlib, deps)
        with open(stamp, "w") as f:
            f.write(f"{h} {'ok' if rc == 0 else 'no'} {err[-3000:]}")
        return name, (rc == 0, err[-3000:], exe)

    with ThreadPoolExecutor(max_workers=NCPU) as ex:
        for name, r in ex.map(one, programs.items()):
            res[name] = r
    return res


def run_many(cmds, timeout=20):
    """cmds: list of argv. Returns list of (rc, stdout, stderr)."""
    def one(argv):
        try:
            r = subprocess.run(argv, capture_output=True, text=True, timeout=timeout)
            return r.returncode, r.stdout, r.stderr
        except subprocess.TimeoutExpired:
            return -999, "", "timeout"
    with ThreadPoolExecutor(max_workers=NCPU) as ex:
        return list(ex.map(one, cmds))


# ---------------------------------------------------------------------------------------------
# C08: the arms of fake!

KINDS = [
    ('unsafe extern "system" fn', "system"),
    ('unsafe extern "C" fn', "C"),
    ("unsafe fn", "unsafe"),
    ("fn", "safe"),
]


def parse_arms(macros_rs):
    """Return the arms of `macro_rules! fake` as dicts {kind, unit, opts(list in matcher order), line}."""
    text = open(macros_rs).read()
    m = re.search(r"macro_rules!\s*fake\s*\{", text)
    if not m:
        raise MachineryError("macro_rules! fake not found in macros.rs")
    # body of the macro: brace matching
    i = m.end()
    depth = 1
    j = i
    while j < len(text) and depth:
        c = text[j]
        if c == "{":
            depth += 1
        elif c == "}":
            depth -= 1
        j += 1
    body = text[i:j - 1]
    base_line = text[:i].count("\n") + 1
    arms = []
    # every arm's matcher: "(" ... ") => {{"
    for mm in re.finditer(r"\(\s*func_type:\s*(.*?)\)\s*=>\s*\{", body, re.S):
        matcher = mm.group(1)
        line = base_line + body[:mm.start()].count("\n")
        kind = None
        for k, short in KINDS:
            if matcher.lstrip().startswith(k + "("):
                kind = short
                break
        if kind is None:
            raise MachineryError(f"macros.rs:{line}: cannot classify the function kind of this fake! arm: {matcher[:80]!r}")
        sig_end = matcher.index("->")
        rest = matcher[sig_end + 2:]
        ret = rest.split(",")[0].strip()
        if ret == "()":
            unit = True
        elif ret.startswith("$"):
            unit = False
        else:
            raise MachineryError(f"macros.rs:{line}: cannot classify the return type of this fake! arm: {ret!r}")
        opts = re.findall(r"(?<![$\w])(when|assign|returns|times)\s*:", rest)
        arms.append({"kind": kind, "unit": unit, "opts": opts, "line": line})
    if not arms:
        raise MachineryError("no fake! arms found")
    return arms


def arm_name(a):
    return f"{a['kind']}_{'unit' if a['unit'] else 'value'}_{'_'.join(a['opts']) or 'plain'}"


def gen_arm_program(a):
    kind = a["kind"]
    unit = a["unit"]
    opts = a["opts"]
    raw = kind in ("C", "system", "unsafe")
    outty = "*mut i32" if raw else "&mut i32"
    kw = {"safe": "fn", "unsafe": "unsafe fn", "C": 'unsafe extern "C" fn', "system": 'unsafe extern "system" fn'}[kind]
    ret = "()" if unit else "i32"
    fnty_macro = {"safe": "fn", "unsafe": "unsafe{} fn", "C": 'unsafe{} extern "C" fn', "system": 'unsafe{} extern "system" fn'}[kind]
    target_ret = "" if unit else " -> i32"
    func_expr = f"injectorpp::func!({fnty_macro} (target)(i32, {outty}){target_ret})"
    body_unit = "*out += 1000;" if not raw else "unsafe { *out += 1000; }"
    target_body = body_unit if unit else body_unit + " a + 7000"

    def invocation(n):
        parts = [f"func_type: {kw}(a: i32, out: {outty}) -> {ret}"]
        for o in opts:
            if o == "when":
                parts.append("when: a == 1")
            elif o == "assign":
                parts.append("assign: { *out += 10 }")
            elif o == "returns":
                parts.append("returns: { EVALS.fetch_add(1, std::sync::atomic::Ordering::SeqCst); *out + a * 2 }")
            elif o == "times":
                parts.append(f"times: {n}")
        return "injectorpp::fake!(\n                " + ",\n                ".join(parts) + "\n            )"

    if "times" in opts:
        installs = "match n {\n" + "".join(f"            {n} => injector.when_called({func_expr}).will_execute({invocation(n)}),\n" for n in range(4)) + "            _ => panic!(\"bad n\"),\n        }"
    else:
        installs = f"injector.when_called({func_expr}).will_execute({invocation(0)});"
    call = "target(a, &mut out)" if not raw else "unsafe { target(a, &mut out as *mut i32) }"
    return f'''// generated by /verif/lib/e4.py for the fake! arm at macros.rs:{a["line"]}: {arm_name(a)}
use injectorpp::interface::injector::*;
use std::panic::{{catch_unwind, AssertUnwindSafe}};
use std::sync::atomic::AtomicU32;
static EVALS: AtomicU32 = AtomicU32::new(0);

#[inline(never)]
{kw} target(a: i32, out: {outty}){target_ret} {{
    {target_body}
}}

fn class(p: &(dyn std::any::Any + Send)) -> String {{
    let m = p.downcast_ref::<String>().cloned().or_else(|| p.downcast_ref::<&str>().map(|s| s.to_string())).unwrap_or_default();
    format!("MSG {{m}}")
}}

fn main() {{
    let args: Vec<String> = std::env::args().collect();
    let n: usize = args[1].parse().unwrap();
    let scripts_arg = args.get(2).cloned().unwrap_or_default();
    let _ = n;
    // every lifetime evaluates the same fake! source line (the loop body below)
    for (life, script) in scripts_arg.split('/').enumerate() {{
    if life > 0 {{ println!("lifetime {{life}}"); }}
    let r = catch_unwind(AssertUnwindSafe(|| {{
        let mut injector = InjectorPP::new();
        {installs}
        let mut out: i32 = 5;
        for (i, ch) in script.chars().enumerate() {{
            let a: i32 = if ch == 'm' {{ 1 }} else {{ 2 }};
            println!("begin {{i}}");
            let r = catch_unwind(AssertUnwindSafe(|| {call}));
            let ev = EVALS.load(std::sync::atomic::Ordering::SeqCst);
            match r {{
                Ok(v) => println!("call {{i}}: ret={{:?}} out={{out}} evals={{ev}}", v),
                Err(p) => println!("call {{i}}: panic {{}} out={{out}} evals={{ev}}", class(p.as_ref())),
            }}
            out += 1;
        }}
        drop(injector);
    }}));
    match r {{
        Ok(()) => println!("exit: ok"),
        Err(p) => println!("exit: panic {{}}", class(p.as_ref())),
    }}
    }}
    let mut o: i32 = 5;
    let a: i32 = 1;
    let v = {call.replace("&mut out", "&mut o")};
    println!("after: ret={{:?}} out={{o}}", v);
}}
'''


def gen_namecap_program(a):
    """A second well-typed use of the arm in which the user's own types are called `Ordering` (std::cmp) and
    `AtomicUsize`: names the macro's expansion must not capture."""
    kind, unit, opts = a["kind"], a["unit"], a["opts"]
    raw = kind in ("C", "system", "unsafe")
    outty = "*mut i32" if raw else "&mut i32"
    kw = {"safe": "fn", "unsafe": "unsafe fn", "C": 'unsafe extern "C" fn', "system": 'unsafe extern "system" fn'}[kind]
    fnty_macro = {"safe": "fn", "unsafe": "unsafe{} fn", "C": 'unsafe{} extern "C" fn', "system": 'unsafe{} extern "system" fn'}[kind]
    ret = "()" if unit else "i32"
    target_ret = "" if unit else " -> i32"
    parts = [f"func_type: {kw}(a: Ordering, n: AtomicUsize, out: {outty}) -> {ret}"]
    for o in opts:
        parts.append({"when": "when: a == Ordering::Less && n.0 == 3", "assign": "assign: { *out += 10 }", "returns": "returns: *out + 2", "times": "times: 1"}[o])
    fake = "injectorpp::fake!(" + ", ".join(parts) + ")"
    body = ("unsafe { *out += 1000; }" if raw else "*out += 1000;") + ("" if unit else " 7000")
    call = "target(Ordering::Less, AtomicUsize(3), &mut out)" if not raw else "unsafe { target(Ordering::Less, AtomicUsize(3), &mut out as *mut i32) }"
    return f'''// generated by /verif/lib/e4.py: name-capture probe for the fake! arm at macros.rs:{a["line"]} ({arm_name(a)})
use injectorpp::interface::injector::*;
use std::cmp::Ordering;
use std::panic::{{catch_unwind, AssertUnwindSafe}};
#[derive(Clone, Copy, PartialEq)]
#[repr(C)]
pub struct AtomicUsize(pub i32);

#[inline(never)]
{kw} target(a: Ordering, n: AtomicUsize, out: {outty}){target_ret} {{
    let _ = (a, n);
    {body}
}}

fn main() {{
    let r = catch_unwind(AssertUnwindSafe(|| {{
        let mut injector = InjectorPP::new();
        injector.when_called(injectorpp::func!({fnty_macro} (target)(Ordering, AtomicUsize, {outty}){target_ret})).will_execute({fake});
        let mut out: i32 = 5;
        let v = {call};
        println!("ret={{:?}} out={{out}}", v);
    }}));
    match r {{
        Ok(()) => println!("exit: ok"),
        Err(p) => println!("exit: panic {{}}", p.downcast_ref::<String>().cloned().or_else(|| p.downcast_ref::<&str>().map(|s| s.to_string())).unwrap_or_default()),
    }}
}}
'''


def gen_aggregate_program(a):
    """A third well-typed use of the arm: aggregates passed by value (a 12-byte all-float struct, which the
    SysV C ABI passes in SSE registers, and a 40-byte struct, passed in memory).  The fake must see exactly
    what the caller passed: the ABI of the generated fake has to be the one the func_type names."""
    kind, unit, opts = a["kind"], a["unit"], a["opts"]
    raw = kind in ("C", "system", "unsafe")
    outty = "*mut i32" if raw else "&mut i32"
    kw = {"safe": "fn", "unsafe": "unsafe fn", "C": 'unsafe extern "C" fn', "system": 'unsafe extern "system" fn'}[kind]
    fnty_macro = {"safe": "fn", "unsafe": "unsafe{} fn", "C": 'unsafe{} extern "C" fn', "system": 'unsafe{} extern "system" fn'}[kind]
    ret = "()" if unit else "i32"
    target_ret = "" if unit else " -> i32"
    parts = [f"func_type: {kw}(a: i32, s: S3, b: Big, out: {outty}) -> {ret}"]
    for o in opts:
        parts.append({"when": "when: a == 1 && s.y == 2.5 && b.v[4] == 55", "assign": "assign: { *out += 10 + s.x as i32 }", "returns": "returns: *out + 2 + s.z as i32 + b.v[0] as i32", "times": "times: 1"}[o])
    fake = "injectorpp::fake!(" + ", ".join(parts) + ")"
    body = ("unsafe { *out += 1000; }" if raw else "*out += 1000;") + ("" if unit else " 7000")
    argv = "1, S3 { x: 1.0, y: 2.5, z: 3.0 }, Big { v: [11, 22, 33, 44, 55] }"
    call = f"target({argv}, &mut out)" if not raw else f"unsafe {{ target({argv}, &mut out as *mut i32) }}"
    return f'''// generated by /verif/lib/e4.py: by-value aggregate probe for the fake! arm at macros.rs:{a["line"]} ({arm_name(a)})
use injectorpp::interface::injector::*;
use std::panic::{{catch_unwind, AssertUnwindSafe}};
#[derive(Clone, Copy, PartialEq)]
#[repr(C)]
pub struct S3 {{ pub x: f32, pub y: f32, pub z: f32 }}
#[derive(Clone, Copy, PartialEq)]
#[repr(C)]
pub struct Big {{ pub v: [u64; 5] }}

#[inline(never)]
{kw} target(a: i32, s: S3, b: Big, out: {outty}){target_ret} {{
    let _ = std::hint::black_box((a, s.x, b.v[0]));
    {body}
}}

fn main() {{
    let r = catch_unwind(AssertUnwindSafe(|| {{
        let mut injector = InjectorPP::new();
        injector.when_called(injectorpp::func!({fnty_macro} (target)(i32, S3, Big, {outty}){target_ret})).will_execute({fake});
        let mut out: i32 = 5;
        let v = {call};
        println!("ret={{:?}} out={{out}}", v);
    }}));
    match r {{
        Ok(()) => println!("exit: ok"),
        Err(p) => println!("exit: panic {{}}", p.downcast_ref::<String>().cloned().or_else(|| p.downcast_ref::<&str>().map(|s| s.to_string())).unwrap_or_default()),
    }}
}}
'''


def arm_model(a, n, scripts):
    """Reference model for one or more lifetimes ('/'-separated scripts), every one judged like a first one."""
    lines = []
    parts = scripts.split("/")
    evals0 = 0
    for li, sc in enumerate(parts):
        if li > 0:
            lines.append(f"lifetime {li}")
        one, evals0 = arm_model_one(a, n, sc, evals0)
        if li < len(parts) - 1:
            if any(l.startswith("ABORT") for l in one):
                lines += one
                return lines
            one = [l for l in one if not l.startswith("after:")]
        lines += one
    return lines


def arm_model_one(a, n, script, evals0=0):
    """Reference model: expected stdout lines for (arm, N, script); the evaluation counter of the
    `returns` expression is the harness's own static and keeps counting across lifetimes."""
    opts = a["opts"]
    unit = a["unit"]
    nounwind = a["kind"] in ("C", "system")
    has_when, has_assign, has_returns, has_times = ("when" in opts), ("assign" in opts), ("returns" in opts), ("times" in opts)
    out, evals, count = 5, evals0, 0
    lines = []
    aborted = False
    for i, ch in enumerate(script):
        a_val = 1 if ch == "m" else 2
        lines.append(f"begin {i}")
        panic = None
        if has_when and a_val != 1:
            panic = "REJECT"
        else:
            if has_times:
                admitted = count < n
                count += 1
                if not admitted:
                    panic = "OVER"
            if panic is None:
                if has_assign:
                    out += 10
                if has_returns:
                    evals += 1
                    retv = out + a_val * 2
        if panic:
            if nounwind:
                aborted = True
                lines.append(f"ABORT {panic}")
                break
            lines.append(f"call {i}: panic out={out} evals={evals}")
        else:
            r = "()" if unit else str(retv)
            lines.append(f"call {i}: ret={r} out={out} evals={evals}")
        out += 1
    if not aborted:
        if has_times and count != n:
            lines.append(f"exit: panic VERIFY {n} {count}")
        else:
            lines.append("exit: ok")
        lines.append("after: ret=" + ("()" if unit else "7001") + " out=1005")
    return lines, evals


def judge_arm_run(a, n, script, rc, stdout, stderr):
    """Compare one run with the model. Returns None or (key-suffix, description)."""
    want = arm_model(a, n, script)
    got = []
    for l in stdout.splitlines():
        if not l.strip():
            continue
        # the wording of call-time panics is not part of the property: keep only the fact
        m_ = re.match(r"(call \d+: panic) MSG .*? (out=\S+ evals=\S+)$", l)
        got.append(f"{m_.group(1)} {m_.group(2)}" if m_ else l)
    name = arm_name(a)
    ctx = f"arm {name} (macros.rs:{a['line']}), times N={n}, script {script!r}"
    for i, w in enumerate(want):
        if w.startswith("ABORT"):
            cls = w.split()[1]
            phrase = {"REJECT": "a call rejected by `when`", "OVER": "a call beyond the budget"}[cls]
            if rc >= 0 or rc == -999:
                return ("non-unwinding-abi-no-abort", f"{ctx}: expected the process to abort at this call ({phrase}), it exited with status {rc}; output so far {got[-2:]}")
            if len(got) != i:
                return ("output-after-abort", f"{ctx}: output differs before the abort: got {got}, expected {want[:i]}")
            return None
        if i >= len(got):
            return ("run-ended-early", f"{ctx}: the run ended early (status {rc}); got {got[-3:]}, expected next {w!r}; stderr {stderr[-300:]!r}")
        g = got[i]
        if w.startswith("exit: panic VERIFY"):
            _, _, _, nn, kk = w.split()
            if not g.startswith("exit: panic"):
                return ("scope-exit-verdict", f"{ctx}: expected the scope-exit panic naming {nn} and {kk}, got {g!r}")
            nums = re.findall(r"\d+", g)
            if nn not in nums or kk not in nums:
                return ("scope-exit-message-numbers", f"{ctx}: scope-exit panic does not name both {nn} and {kk}: {g!r}")
            continue
        if g != w:
            what = "call-outcome"
            if w.startswith("call") and g.startswith("call"):
                wf = dict(x.split("=") for x in w.split()[2:] if "=" in x)
                gf = dict(x.split("=") for x in g.split()[2:] if "=" in x)
                if ("panic" in w) != ("panic" in g):
                    what = "when-or-times-verdict"
                elif wf.get("evals") != gf.get("evals"):
                    what = "returns-evaluation-count"
                elif wf.get("out") != gf.get("out"):
                    what = "assign-effect"
                elif wf.get("ret") != gf.get("ret"):
                    what = "returned-value"
            elif w.startswith("exit"):
                what = "scope-exit-verdict"
            elif w.startswith("after"):
                what = "not-restored-after-scope"
            if "/" in script and any(x.startswith("lifetime") for x in want[:i]):
                what = "later-lifetime:" + what
            return (what, f"{ctx}: line {i}: got {g!r}, reference model says {w!r}")
    if rc != 0:
        return ("exit-status", f"{ctx}: process exit status {rc}, stderr {stderr[-200:]!r}")
    return None


def scripts_for(a, n, extra):
    alpha = "mx" if "when" in a["opts"] else "m"
    out = [""]
    for length in range(1, n + 2 + extra + 1):
        out += ["".join(p) for p in itertools.product(alpha, repeat=length)]
    return out


def c08(tier, mi, only_aggregates=False, only_arms=False):
    """Every arm in the dev configuration and again with the crate built by the release profile and the
    generated programs compiled without debug assertions (the macro expands in the user's crate: a
    `debug_assert!` in an arm follows the *user's* setting)."""
    v1, c1 = _c08_profile(tier, mi, only_aggregates, False, only_arms)
    v2, c2 = _c08_profile(tier, mi, only_aggregates, True, only_arms)
    for v in v2:
        v["key"] += ":release-profile"
        v["what"] += " (crate built with the release profile, program compiled without debug assertions)"
    cov = dict(c1)
    for k in ("states", "transitions", "traces_validated_against_impl", "runs", "arms_compiled"):
        cov[k] = c1[k] + c2[k]
    cov["distinct_outcomes"] = max(c1["distinct_outcomes"], c2["distinct_outcomes"])
    cov["profiles"] = ["dev (debug assertions on)", "release crate + programs compiled with -C debug-assertions=off"]
    return v1 + v2, cov


def prebuild(mi):
    """Setup step: compile the per-arm programs of both configurations ahead of the checks that run them
    (C06, C07, C08, C13). Nothing is judged here; a program that does not compile is the checks' business."""
    arms = parse_arms(os.path.join(mi["repo"], "src", "interface", "macros.rs"))
    seen = {}
    for a in arms:
        seen.setdefault(arm_name(a), a)
    n = 0
    for release in (False, True):
        rlib, deps = real_rlib(release)
        pre = "rel_" if release else ""
        progs = {(pre + "arm_" + name): gen_arm_program(a) for name, a in seen.items()}
        progs.update({(pre + "cap_" + name): gen_namecap_program(a) for name, a in seen.items()})
        progs.update({(pre + "agg_" + name): gen_aggregate_program(a) for name, a in seen.items()})
        n += len(build_many(progs, rlib, deps))
    return n


def _c08_profile(tier, mi, only_aggregates, release, only_arms=False):
    repo = mi["repo"]
    arms = parse_arms(os.path.join(repo, "src", "interface", "macros.rs"))
    rlib, deps = real_rlib(release)
    pre = "rel_" if release else ""
    # distinct option combinations (a duplicate arm is unreachable: the first one wins)
    seen = {}
    for a in arms:
        seen.setdefault(arm_name(a), a)
    progs = {(pre + "arm_" + name): gen_arm_program(a) for name, a in seen.items()}
    progs.update({(pre + "cap_" + name): gen_namecap_program(a) for name, a in seen.items()})
    progs.update({(pre + "agg_" + name): gen_aggregate_program(a) for name, a in seen.items()})
    if only_aggregates:
        progs = {k: v for k, v in progs.items() if k.startswith(pre + "agg_")}
    if only_arms:
        progs = {k: v for k, v in progs.items() if k.startswith(pre + "arm_")}
    built = build_many(progs, rlib, deps)
    viols = []
    runs = []
    for name, a in seen.items():
        if only_aggregates:
            break
        ok, err, exe = built[pre + "arm_" + name]
        if not ok:
            first = next((l for l in err.splitlines() if l.startswith("error")), err[:200])
            viols.append({"key": f"arm:{name}:does-not-compile", "what": f"the fake! arm at macros.rs:{a['line']} ({name}) does not compile for a well-typed use: {first}",
                          "engine": "e4", "args": ["c08"], "case": {"arm": name, "line": a["line"], "rustc": err[-1200:]}})
            continue
        ns = [0, 1, 2] + ([3] if tier == "thorough" else []) if "times" in a["opts"] else [0]
        for n in ns:
            for sc in scripts_for(a, n if "times" in a["opts"] else 1, 1 if tier == "thorough" else 0):
                runs.append((a, n, sc, [exe, str(n), sc]))
            if "times" in a["opts"] and a["kind"] in ("safe", "unsafe"):
                # the same source line evaluated by several lifetimes (C07 across the arm matrix)
                m = "m" * n
                for sc in (f"{m}/{m}", f"{m}m/{m}", f"{m}/{m}/{m}", f"{'m' * max(0, n - 1)}/{m}"):
                    runs.append((a, n, sc, [exe, str(n), sc]))
    # name-capture probes: must compile, install, run once and leave scope quietly
    cap_cmds = []
    for name, a in seen.items():
        if only_aggregates or only_arms:
            break
        ok, err, exe = built[pre + "cap_" + name]
        if not ok:
            first = next((l for l in err.splitlines() if l.startswith("error")), err[:200])
            viols.append({"key": f"arm:{name}:user-names-captured:does-not-compile", "what": f"the fake! arm at macros.rs:{a['line']} ({name}) does not compile when the user's own types are called `Ordering` / `AtomicUsize`: {first}",
                          "engine": "e4", "args": ["c08"], "case": {"arm": name, "line": a["line"], "rustc": err[-1200:]}})
        else:
            cap_cmds.append((name, a, [exe]))
    for (name, a, _), (rc, so, se) in zip(cap_cmds, run_many([c[2] for c in cap_cmds])):
        want_ret = "()" if a["unit"] else str((15 if "assign" in a["opts"] else 5) + 2)
        want_out = 15 if "assign" in a["opts"] else 5
        want = [f"ret={want_ret} out={want_out}", "exit: ok"]
        got = [l for l in so.splitlines() if l.strip()]
        if got != want:
            viols.append({"key": f"arm:{name}:user-names-captured", "what": f"arm {name} (macros.rs:{a['line']}) used with user types named `Ordering` / `AtomicUsize`: got {got} (status {rc}), expected {want}",
                          "engine": "e4", "args": ["c08"], "case": {"arm": name, "line": a["line"], "stdout": so[-400:], "status": rc}})
    # by-value aggregate probes: the fake must receive exactly what the caller passed
    agg_cmds = []
    for name, a in seen.items():
        if only_arms:
            break
        ok, err, exe = built[pre + "agg_" + name]
        if not ok:
            first = next((l for l in err.splitlines() if l.startswith("error")), err[:200])
            viols.append({"key": f"arm:{name}:aggregates-by-value:does-not-compile", "what": f"the fake! arm at macros.rs:{a['line']} ({name}) does not compile for a func_type with structs passed by value: {first}",
                          "engine": "e4", "args": ["c08"], "case": {"arm": name, "line": a["line"], "rustc": err[-1200:]}})
        else:
            agg_cmds.append((name, a, [exe]))
    for (name, a, _), (rc, so, se) in zip(agg_cmds, run_many([c[2] for c in agg_cmds])):
        out_v = 5 + (11 if "assign" in a["opts"] else 0)
        want_ret = "()" if a["unit"] else str(out_v + 2 + 3 + 11)
        want = [f"ret={want_ret} out={out_v}", "exit: ok"]
        got = [l for l in so.splitlines() if l.strip()]
        if got != want:
            viols.append({"key": f"arm:{name}:aggregates-by-value", "what": f"arm {name} (macros.rs:{a['line']}) with a 12-byte float struct and a 40-byte struct passed by value: got {got} (status {rc}), expected {want}",
                          "engine": "e4", "args": ["c08"], "case": {"arm": name, "line": a["line"], "stdout": so[-400:], "status": rc}})
    results = run_many([r[3] for r in runs])
    outcomes = set()
    for (a, n, sc, _), (rc, so, se) in zip(runs, results):
        outcomes.add((so, rc))
        j = judge_arm_run(a, n, sc, rc, so, se)
        if j:
            viols.append({"key": f"arm:{arm_name(a)}:{j[0]}", "what": j[1], "engine": "e4", "args": ["c08"],
                          "case": {"arm": arm_name(a), "line": a["line"], "n": n, "script": sc, "stdout": so[-600:], "status": rc}})
    cov = {
        "states": len(runs) + 2 * len(seen),
        "transitions": sum(len(r[2]) + 2 for r in runs),
        "traces_validated_against_impl": len(runs),
        "samples": [{"arm": arm_name(r[0]), "n": r[1], "script": r[2]} for r in runs[:: max(1, len(runs) // 4)][:4]],
        "arms_in_source": len(arms), "distinct_arms": len(seen), "arms_compiled": sum(1 for v in built.values() if v[0]),
        "runs": len(runs), "distinct_outcomes": len(outcomes),
        "bound": {"times_N": "0..2 (thorough 0..3)", "scripts": "every sequence over {matching, non-matching} calls up to length N+2 (thorough N+3); non-matching only for arms with `when`"},
        "exhaustive": True,
        "explanation": "states = (arm, N, call script) configurations, each run in its own process against the unmodified crate; transitions = calls judged; every arm found in macros.rs at check time is instantiated by one generated program compiled separately by rustc",
    }
    return viols, cov


# ---------------------------------------------------------------------------------------------
# C09: signature pairs

# (class id, type text, parameter list for a fn item, return type text ('' = unit), fn-item qualifiers, expressible in fake!/closure!)
def sig_family():
    F = []

    def add(cls, ty, params, ret, qual="", closure=True, judged=True):
        F.append({"cls": cls, "ty": ty, "params": params, "ret": ret, "qual": qual, "closure": closure and qual == "", "judged": judged})

    add("a0", "fn() -> i32", "", "i32")
    add("a1", "fn(i32) -> i32", "a: i32", "i32")
    add("a2", "fn(i32, i32) -> i32", "a: i32, b: i32", "i32")
    add("a3", "fn(i32, i32, i32) -> i32", "a: i32, b: i32, c: i32", "i32")
    add("p_u32", "fn(u32) -> i32", "a: u32", "i32")
    add("p_i64", "fn(i64) -> i32", "a: i64", "i32")
    add("p2_u8", "fn(i32, u8) -> i32", "a: i32, b: u8", "i32")
    add("r_u32", "fn(i32) -> u32", "a: i32", "u32")
    add("r_i64", "fn(i32) -> i64", "a: i32", "i64")
    add("r_bool", "fn(i32) -> bool", "a: i32", "bool")
    add("r_unit", "fn(i32)", "a: i32", "")
    add("r_unit", "fn(i32) -> ()", "a: i32", "")          # the same type spelled differently: must be accepted
    add("ref", "fn(&i32) -> i32", "a: &i32", "i32")
    add("refmut", "fn(&mut i32) -> i32", "a: &mut i32", "i32")
    add("cptr", "fn(*const i32) -> i32", "a: *const i32", "i32")
    add("mptr", "fn(*mut i32) -> i32", "a: *mut i32", "i32")
    add("unsafe", "unsafe fn(i32) -> i32", "a: i32", "i32", "unsafe")
    add("externC", 'extern "C" fn(i32) -> i32', "a: i32", "i32", 'extern "C"')
    add("unsafeC", 'unsafe extern "C" fn(i32) -> i32', "a: i32", "i32", 'unsafe extern "C"')
    add("unsafeSys", 'unsafe extern "system" fn(i32) -> i32', "a: i32", "i32", 'unsafe extern "system"')
    add("nest_i", "fn(fn(i32) -> i32) -> i32", "a: fn(i32) -> i32", "i32")
    add("nest_b", "fn(fn(i32) -> bool) -> i32", "a: fn(i32) -> bool", "i32")
    add("r_opt", "fn(i32) -> Option<i32>", "a: i32", "Option<i32>")
    add("r_str", "fn(i32) -> String", "a: i32", "String")
    add("case_U", "fn(Foo) -> i32", "a: Foo", "i32")
    add("case_l", "fn(foo) -> i32", "a: foo", "i32")
    add("homo_1", "fn(m1::Config) -> i32", "a: m1::Config", "i32")
    add("homo_2", "fn(m2::Config) -> i32", "a: m2::Config", "i32")
    add("homo_r1", "fn(i32) -> m1::Error", "a: i32", "m1::Error")
    add("homo_r2", "fn(i32) -> m2::Error", "a: i32", "m2::Error")
    add("ref", "fn(&'static i32) -> i32", "a: &'static i32", "i32", judged=False)   # lifetime spelling only: exercised, not judged
    # near misses in the printed type name: const-generic arguments (a char argument prints with apostrophes,
    # like a lifetime), array lengths, a tuple against two parameters, generic arguments, trait objects,
    # a name that is a prefix of another
    add("cg_m", "fn(Q<'m'>) -> i32", "a: Q<'m'>", "i32")
    add("cg_s", "fn(Q<'s'>) -> i32", "a: Q<'s'>", "i32")
    add("cg_3", "fn(N<3>) -> i32", "a: N<3>", "i32")
    add("cg_4", "fn(N<4>) -> i32", "a: N<4>", "i32")
    add("cg_t", "fn(B<true>) -> i32", "a: B<true>", "i32")
    add("cg_f", "fn(B<false>) -> i32", "a: B<false>", "i32")
    add("arr4", "fn([u8; 4]) -> i32", "a: [u8; 4]", "i32")
    add("arr8", "fn([u8; 8]) -> i32", "a: [u8; 8]", "i32")
    add("tup2", "fn((i32, i32)) -> i32", "a: (i32, i32)", "i32")
    add("vec_i", "fn(Vec<i32>) -> i32", "a: Vec<i32>", "i32")
    add("vec_u", "fn(Vec<u32>) -> i32", "a: Vec<u32>", "i32")
    add("dyn_a", "fn(&dyn TA) -> i32", "a: &dyn TA", "i32")
    add("dyn_b", "fn(&dyn TB) -> i32", "a: &dyn TB", "i32")
    add("case_U2", "fn(Foo2) -> i32", "a: Foo2", "i32")
    return F


def split_params(params):
    """split a parameter list at top-level commas"""
    out, depth, cur = [], 0, ""
    for ch in params:
        if ch in "([<":
            depth += 1
        elif ch in ")]>":
            depth -= 1
        if ch == "," and depth == 0:
            out.append(cur.strip())
            cur = ""
        else:
            cur += ch
    if cur.strip():
        out.append(cur.strip())
    return out


def default_value(ret):
    return {"": "()", "i32": "1", "u32": "1", "i64": "1", "bool": "true", "Option<i32>": "Some(1)", "String": "String::new()", "m1::Error": "m1::Error", "m2::Error": "m2::Error"}[ret]


def gen_c09_program(part=0, nparts=1):
    F = sig_family()
    n = len(F)
    out = ['// generated by /verif/lib/e4.py (C09: signature pairs)',
           '#![allow(non_camel_case_types, unused)]',
           'use injectorpp::interface::injector::*;',
           'use std::panic::{catch_unwind, AssertUnwindSafe};',
           '#[derive(Clone, Copy)] pub struct Foo(pub i32);',
           '#[derive(Clone, Copy)] pub struct foo(pub i32);',
           '#[derive(Clone, Copy)] pub struct Foo2(pub i32);',
           '#[derive(Clone, Copy)] pub struct Q<const U: char>(pub i32);',
           '#[derive(Clone, Copy)] pub struct N<const K: usize>(pub i32);',
           '#[derive(Clone, Copy)] pub struct B<const F: bool>(pub i32);',
           'pub trait TA { fn a(&self) -> i32 { 1 } } pub trait TB { fn b(&self) -> i32 { 2 } }',
           'pub mod m1 { #[derive(Clone, Copy)] pub struct Config(pub i32); pub struct Error; }',
           'pub mod m2 { #[derive(Clone, Copy)] pub struct Config(pub i64); pub struct Error; }',
           'fn class(p: &(dyn std::any::Any + Send)) -> &\'static str { let m = p.downcast_ref::<String>().cloned().or_else(|| p.downcast_ref::<&str>().map(|s| s.to_string())).unwrap_or_default(); if m.contains("Signature mismatch") { "MISMATCH" } else if m.contains("Pointer must not be null") { "NULL" } else { "OTHER" } }',
           'fn bytes(p: *const ()) -> [u8; 16] { let mut b = [0u8; 16]; unsafe { std::ptr::copy_nonoverlapping(p as *const u8, b.as_mut_ptr(), 16) }; b }']
    for i, f in enumerate(F):
        ret = f" -> {f['ret']}" if f["ret"] else ""
        retv = default_value(f["ret"])
        q = f["qual"] + " " if f["qual"] else ""
        out.append(f"#[inline(never)] {q}fn t{i}({f['params']}){ret} {{ std::hint::black_box({1000 + i}); {retv} }}")
        out.append(f"#[inline(never)] {q}fn f{i}({f['params']}){ret} {{ std::hint::black_box({2000 + i}); {retv} }}")
    out.append("fn report(form: &str, i: usize, j: usize, r: Result<(), Box<dyn std::any::Any + Send>>, before: [u8; 16], during: Option<[u8; 16]>, after: [u8; 16]) {")
    out.append('    let v = match &r { Ok(()) => "OK".to_string(), Err(p) => format!("PANIC {}", class(p.as_ref())) };')
    out.append('    println!("{form} {i} {j} {v} modified_during={} restored={}", during.map(|d| (d != before) as u8).unwrap_or(9), (after == before) as u8);')
    out.append("}")
    out.append("fn main() {")
    # form A: func! x func!, every ordered pair
    for i, fi in enumerate(F):
        if i % nparts != part:
            continue
        for j, fj in enumerate(F):
            out.append(f"    {{ let tp = t{i} as {fi['ty']} as *const (); let before = bytes(tp); let mut during = None;"
                       f" let r = catch_unwind(AssertUnwindSafe(|| {{ let mut inj = InjectorPP::new(); inj.when_called(injectorpp::func!(t{i}, {fi['ty']})).will_execute_raw(injectorpp::func!(f{j}, {fj['ty']})); during = Some(bytes(tp)); }}));"
                       f" report(\"A\", {i}, {j}, r, before, during, bytes(tp)); }}")
    # form B: closure! as replacement (safe Rust-ABI types only)
    for i, fi in enumerate(F):
        if i % nparts != part:
            continue
        for j, fj in enumerate(F):
            if not fj["closure"] or "'static" in fj["ty"]:
                continue
            args = ", ".join(f"_{k}: {p.split(':', 1)[1].strip()}" for k, p in enumerate(split_params(fj["params"])) if p)
            ret = f" -> {fj['ret']}" if fj["ret"] else ""
            body = default_value(fj["ret"])
            out.append(f"    {{ let tp = t{i} as {fi['ty']} as *const (); let before = bytes(tp); let mut during = None;"
                       f" let r = catch_unwind(AssertUnwindSafe(|| {{ let mut inj = InjectorPP::new(); inj.when_called(injectorpp::func!(t{i}, {fi['ty']})).will_execute_raw(injectorpp::closure!(|{args}|{ret} {{ {body} }}, {fj['ty']})); during = Some(bytes(tp)); }}));"
                       f" report(\"B\", {i}, {j}, r, before, during, bytes(tp)); }}")
    # form E: checked x unchecked mixes and null pointers, per type
    for i, fi in enumerate(F):
        if i % nparts != part:
            continue
        out.append(f"    {{ let tp = t{i} as {fi['ty']} as *const (); let before = bytes(tp); let mut during = None;"
                   f" let r = catch_unwind(AssertUnwindSafe(|| {{ let mut inj = InjectorPP::new(); inj.when_called(injectorpp::func!(t{i}, {fi['ty']})).will_execute_raw(unsafe {{ injectorpp::func_unchecked!(f{i}) }}); during = Some(bytes(tp)); }}));"
                   f" report(\"E1\", {i}, {i}, r, before, during, bytes(tp)); }}")
        out.append(f"    {{ let tp = t{i} as {fi['ty']} as *const (); let before = bytes(tp); let mut during = None;"
                   f" let r = catch_unwind(AssertUnwindSafe(|| {{ let mut inj = InjectorPP::new(); unsafe {{ inj.when_called_unchecked(injectorpp::func_unchecked!(t{i})) }}.will_execute_raw(injectorpp::func!(f{i}, {fi['ty']})); during = Some(bytes(tp)); }}));"
                   f" report(\"E2\", {i}, {i}, r, before, during, bytes(tp)); }}")
        out.append(f"    {{ let tp = t{i} as {fi['ty']} as *const (); let before = bytes(tp); let mut during = None;"
                   f" let r = catch_unwind(AssertUnwindSafe(|| {{ let mut inj = InjectorPP::new(); unsafe {{ inj.when_called_unchecked(injectorpp::func_unchecked!(t{i})).will_execute_raw_unchecked(injectorpp::func_unchecked!(f{i})) }}; during = Some(bytes(tp)); }}));"
                   f" report(\"E3\", {i}, {i}, r, before, during, bytes(tp)); }}")
        out.append(f"    {{ let tp = t{i} as {fi['ty']} as *const (); let before = bytes(tp); let mut during = None;"
                   f" let r = catch_unwind(AssertUnwindSafe(|| {{ let mut inj = InjectorPP::new(); let sig = std::any::type_name::<{fi['ty']}>(); inj.when_called(injectorpp::func!(t{i}, {fi['ty']})).will_execute_raw(unsafe {{ FuncPtr::new(std::ptr::null(), sig) }}); during = Some(bytes(tp)); }}));"
                   f" report(\"N\", {i}, {i}, r, before, during, bytes(tp)); }}")
    out.append("}")
    return "\n".join(out) + "\n", F


def gen_c09_macro_program(arms=()):
    """fake! and the func_info:/fn (f)(..) spellings, the async forms, and (form R) the signature
    recorded by every fake! arm found in the source."""
    kinds = [("fn", "fn", "", "K0"), ("unsafe fn", "unsafe{} fn", "unsafe", "K1"), ('unsafe extern "C" fn', 'unsafe{} extern "C" fn', 'unsafe extern "C"', "K2"), ('unsafe extern "system" fn', 'unsafe{} extern "system" fn', 'unsafe extern "system"', "K3")]
    shapes = [("a: i32", "i32", "i32", "1"), ("a: i32, b: i32", "i32, i32", "i32", "1"), ("a: u32", "u32", "i32", "1"), ("a: i32", "i32", "i64", "1")]
    out = ['// generated by /verif/lib/e4.py (C09: macro forms)', '#![allow(unused)]',
           'use injectorpp::interface::injector::*;', 'use std::panic::{catch_unwind, AssertUnwindSafe};',
           'fn class(p: &(dyn std::any::Any + Send)) -> &\'static str { let m = p.downcast_ref::<String>().cloned().or_else(|| p.downcast_ref::<&str>().map(|s| s.to_string())).unwrap_or_default(); if m.contains("Signature mismatch") { "MISMATCH" } else if m.contains("Pointer must not be null") { "NULL" } else { "OTHER" } }',
           'fn bytes(p: *const ()) -> [u8; 16] { let mut b = [0u8; 16]; unsafe { std::ptr::copy_nonoverlapping(p as *const u8, b.as_mut_ptr(), 16) }; b }']
    items = []
    for ki, (kw, mk, q, _) in enumerate(kinds):
        for si, (params, tys, ret, val) in enumerate(shapes):
            idx = len(items)
            items.append((ki, si))
            out.append(f"#[inline(never)] {q + ' ' if q else ''}fn m{idx}({params}) -> {ret} {{ std::hint::black_box({3000 + idx}); {val} }}")
    for o, ty in enumerate(["u32", "u64", "bool", "String", "Option<u32>"]):
        v = {"u32": "1", "u64": "1", "bool": "true", "String": "String::new()", "Option<u32>": "None"}[ty]
        out.append(f"async fn as{o}(x: u32) -> {ty} {{ std::hint::black_box(x); {v} }}")
    out.append("fn main() {")
    n = len(items)
    for i, (ki, si) in enumerate(items):
        kw, mk, q, _ = kinds[ki]
        params, tys, ret, val = shapes[si]
        fnty = f"{kw}({tys}) -> {ret}"
        for j, (kj, sj) in enumerate(items):
            kwj = kinds[kj][0]
            pj, tj, rj, vj = shapes[sj]
            # target through the `fn (f)(..)` spelling (even i) or `func_info:` (odd i); replacement through fake!
            target = f"injectorpp::func!({mk} (m{i})({tys}) -> {ret})" if i % 2 == 0 else f"injectorpp::func!(func_info: {kw} (m{i})({tys}) -> {ret})"
            if "unsafe{}" in target and i % 2 == 1:
                target = f"injectorpp::func!(func_info: {kw} (m{i})({tys}) -> {ret})"
            fake = f"injectorpp::fake!(func_type: {kwj}({pj}) -> {rj}, returns: {vj})"
            out.append(f"    {{ let tp = m{i} as {fnty} as *const (); let before = bytes(tp); let mut during = None;"
                       f" let r = catch_unwind(AssertUnwindSafe(|| {{ let mut inj = InjectorPP::new(); inj.when_called({target}).will_execute({fake}); during = Some(bytes(tp)); }}));"
                       f" let v = match &r {{ Ok(()) => \"OK\".to_string(), Err(p) => format!(\"PANIC {{}}\", class(p.as_ref())) }};"
                       f" println!(\"M {i} {j} {{v}} modified_during={{}} restored={{}}\", during.map(|d| (d != before) as u8).unwrap_or(9), (bytes(tp) == before) as u8); }}")
    # form R: every arm of fake! against a target of every function kind (same parameter shape)
    kshort = ["safe", "unsafe", "C", "system"]
    rt_defs = []
    for ki, (kw, mk, q, _) in enumerate(kinds):
        outty = "&mut i32" if ki == 0 else "*mut i32"
        for unit in (False, True):
            ret = "" if unit else " -> i32"
            body = "()" if unit else "1"
            rt_defs.append(f"#[inline(never)] {q + ' ' if q else ''}fn rt{ki}{int(unit)}(a: i32, out: {outty}){ret} {{ std::hint::black_box({5000 + ki * 2 + int(unit)}); {body} }}")
    main_at = out.index("fn main() {")
    out[main_at:main_at] = rt_defs
    for ai, a in enumerate(arms):
        ka = kshort.index(a["kind"])
        kwa = kinds[ka][0]
        outa = "&mut i32" if ka == 0 else "*mut i32"
        parts = [f"func_type: {kwa}(a: i32, out: {outa}) -> {'()' if a['unit'] else 'i32'}"]
        for o in a["opts"]:
            parts.append({"when": "when: a == 1", "assign": "assign: { *out += 10 }", "returns": "returns: *out + a", "times": "times: 0"}[o])
        fake = "injectorpp::fake!(" + ", ".join(parts) + ")"
        for ki, (kw, mk, q, _) in enumerate(kinds):
            outty = "&mut i32" if ki == 0 else "*mut i32"
            for unit in (False, True):
                fnty = f"{kw}(i32, {outty})" + ("" if unit else " -> i32")
                out.append(f"    {{ let tp = rt{ki}{int(unit)} as {fnty} as *const (); let before = bytes(tp); let mut during = None;"
                           f" let r = catch_unwind(AssertUnwindSafe(|| {{ let mut inj = InjectorPP::new(); inj.when_called(injectorpp::func!(rt{ki}{int(unit)}, {fnty})).will_execute({fake}); during = Some(bytes(tp)); }}));"
                           f" let v = match &r {{ Ok(()) => \"OK\".to_string(), Err(p) => format!(\"PANIC {{}}\", class(p.as_ref())) }};"
                           f" println!(\"R {ai} {ki * 2 + int(unit)} {{v}} modified_during={{}} restored={{}}\", during.map(|d| (d != before) as u8).unwrap_or(9), (bytes(tp) == before) as u8); }}")
    tys = ["u32", "u64", "bool", "String", "Option<u32>"]
    vals = {"u32": "1", "u64": "1", "bool": "true", "String": "String::new()", "Option<u32>": "None"}
    for i, ti in enumerate(tys):
        for j, tj in enumerate(tys):
            out.append(f"    {{ let r = catch_unwind(AssertUnwindSafe(|| {{ let mut inj = InjectorPP::new(); inj.when_called_async(injectorpp::async_func!(as{i}(0), {ti})).will_return_async(injectorpp::async_return!({vals[tj]}, {tj})); }}));"
                       f" let v = match &r {{ Ok(()) => \"OK\".to_string(), Err(p) => format!(\"PANIC {{}}\", class(p.as_ref())) }}; println!(\"Y {i} {j} {{v}} modified_during=9 restored=1\"); }}")
        # checked async paired with an unchecked value and vice versa
        out.append(f"    {{ let r = catch_unwind(AssertUnwindSafe(|| {{ let mut inj = InjectorPP::new(); inj.when_called_async(injectorpp::async_func!(as{i}(0), {ti})).will_return_async(unsafe {{ injectorpp::async_return_unchecked!({vals[ti]}, {ti}) }}); }}));"
                   f" let v = match &r {{ Ok(()) => \"OK\".to_string(), Err(p) => format!(\"PANIC {{}}\", class(p.as_ref())) }}; println!(\"Y1 {i} {i} {{v}} modified_during=9 restored=1\"); }}")
        out.append(f"    {{ let r = catch_unwind(AssertUnwindSafe(|| {{ let mut inj = InjectorPP::new(); unsafe {{ inj.when_called_async_unchecked(injectorpp::async_func_unchecked!(as{i}(0))) }}.will_return_async(injectorpp::async_return!({vals[ti]}, {ti})); }}));"
                   f" let v = match &r {{ Ok(()) => \"OK\".to_string(), Err(p) => format!(\"PANIC {{}}\", class(p.as_ref())) }}; println!(\"Y2 {i} {i} {{v}} modified_during=9 restored=1\"); }}")
    out.append("}")
    return "\n".join(out) + "\n", items, kinds, shapes


C09_PREFIX_OPS = ["typed-install(Ta)", "typed-install(Tb)", "unchecked-install", "refused-typed-pair", "typed-when_called-left-incomplete", "typed-will_execute(fake!)", "will_return_boolean"]
C09_PROBES = [("typed Ta target x typed Ta replacement", "OK"), ("typed Ta target x typed Tb replacement", "PANIC MISMATCH"),
              ("typed Ta target x unchecked replacement", "PANIC MISMATCH"), ("unchecked target x typed Ta replacement through will_execute_raw", "PANIC MISMATCH"),
              ("unchecked target x unchecked replacement", "OK"), ("typed Tb target x typed Ta replacement", "PANIC MISMATCH"),
              ("typed Ta target x fake!(func_type: Tb)", "PANIC MISMATCH"), ("typed Tb target x typed Tb replacement", "OK")]
C09_CONTEXTS = ["plain", "while-unwinding (inside a fixture's Drop)"]


def c09_prefixes():
    n = len(C09_PREFIX_OPS)
    return [()] + [(a,) for a in range(n)] + [(a, b) for a in range(n) for b in range(n)]


def gen_c09_context_program():
    """form S: the probe pair is made on an injector that already went through a prefix of other
    operations (every prefix of length <= 2 over 7 operations), in a plain context and while the
    thread is unwinding (inside a Drop of a fixture).  The expected verdict of the probe depends on
    the probe alone."""
    out = ['// generated by /verif/lib/e4.py (C09: probe pairs in injector contexts)', '#![allow(unused)]',
           'use injectorpp::interface::injector::*;', 'use std::panic::{catch_unwind, AssertUnwindSafe};',
           'type Ta = fn(i32) -> i32; type Tb = fn(i64) -> i64; type Tc = fn(i32) -> bool;',
           'fn class(p: &(dyn std::any::Any + Send)) -> &\'static str { let m = p.downcast_ref::<String>().cloned().or_else(|| p.downcast_ref::<&str>().map(|s| s.to_string())).unwrap_or_default(); if m.contains("Signature mismatch") { "MISMATCH" } else if m.contains("Pointer must not be null") { "NULL" } else { "OTHER" } }',
           'fn bytes(p: *const ()) -> [u8; 16] { let mut b = [0u8; 16]; unsafe { std::ptr::copy_nonoverlapping(p as *const u8, b.as_mut_ptr(), 16) }; b }']
    k = 9000
    for nm in ["pa0", "pa1", "ra", "pw0", "pw1", "pf0", "pf1", "pr0", "pr1", "qa", "fa", "pu0", "pu1", "ru", "qu", "fu"]:
        k += 1
        out.append(f"#[inline(never)] fn {nm}(a: i32) -> i32 {{ std::hint::black_box({k}); a }}")
    for nm in ["pb0", "pb1", "rb", "qb", "fb"]:
        k += 1
        out.append(f"#[inline(never)] fn {nm}(a: i64) -> i64 {{ std::hint::black_box({k}); a }}")
    for nm in ["pt0", "pt1"]:
        k += 1
        out.append(f"#[inline(never)] fn {nm}(a: i32) -> bool {{ std::hint::black_box({k}); a == 0 }}")
    out.append("""
fn pre(inj: &mut InjectorPP, op: usize, slot: usize) {
    match (op, slot) {
        (0, 0) => inj.when_called(injectorpp::func!(pa0, Ta)).will_execute_raw(injectorpp::func!(ra, Ta)),
        (0, _) => inj.when_called(injectorpp::func!(pa1, Ta)).will_execute_raw(injectorpp::func!(ra, Ta)),
        (1, 0) => inj.when_called(injectorpp::func!(pb0, Tb)).will_execute_raw(injectorpp::func!(rb, Tb)),
        (1, _) => inj.when_called(injectorpp::func!(pb1, Tb)).will_execute_raw(injectorpp::func!(rb, Tb)),
        (2, 0) => unsafe { inj.when_called_unchecked(injectorpp::func_unchecked!(pu0)).will_execute_raw_unchecked(injectorpp::func_unchecked!(ru)) },
        (2, _) => unsafe { inj.when_called_unchecked(injectorpp::func_unchecked!(pu1)).will_execute_raw_unchecked(injectorpp::func_unchecked!(ru)) },
        (3, 0) => { let _ = catch_unwind(AssertUnwindSafe(|| inj.when_called(injectorpp::func!(pr0, Ta)).will_execute_raw(injectorpp::func!(rb, Tb)))); }
        (3, _) => { let _ = catch_unwind(AssertUnwindSafe(|| inj.when_called(injectorpp::func!(pr1, Ta)).will_execute_raw(injectorpp::func!(rb, Tb)))); }
        (4, 0) => { let _b = inj.when_called(injectorpp::func!(pw0, Ta)); }
        (4, _) => { let _b = inj.when_called(injectorpp::func!(pw1, Ta)); }
        (5, 0) => inj.when_called(injectorpp::func!(pf0, Ta)).will_execute(injectorpp::fake!(func_type: fn(a: i32) -> i32, returns: 5)),
        (5, _) => inj.when_called(injectorpp::func!(pf1, Ta)).will_execute(injectorpp::fake!(func_type: fn(a: i32) -> i32, returns: 5)),
        (6, 0) => inj.when_called(injectorpp::func!(pt0, Tc)).will_return_boolean(true),
        (_, _) => inj.when_called(injectorpp::func!(pt1, Tc)).will_return_boolean(true),
    }
}
fn probe_target(q: usize) -> *const () {
    match q { 3 | 4 => qu as Ta as *const (), 5 | 7 => qb as Tb as *const (), _ => qa as Ta as *const () }
}
fn probe(inj: &mut InjectorPP, q: usize) {
    match q {
        0 => inj.when_called(injectorpp::func!(qa, Ta)).will_execute_raw(injectorpp::func!(fa, Ta)),
        1 => inj.when_called(injectorpp::func!(qa, Ta)).will_execute_raw(injectorpp::func!(fb, Tb)),
        2 => inj.when_called(injectorpp::func!(qa, Ta)).will_execute_raw(unsafe { injectorpp::func_unchecked!(fu) }),
        3 => unsafe { inj.when_called_unchecked(injectorpp::func_unchecked!(qu)) }.will_execute_raw(injectorpp::func!(fa, Ta)),
        4 => unsafe { inj.when_called_unchecked(injectorpp::func_unchecked!(qu)).will_execute_raw_unchecked(injectorpp::func_unchecked!(fu)) },
        5 => inj.when_called(injectorpp::func!(qb, Tb)).will_execute_raw(injectorpp::func!(fa, Ta)),
        6 => inj.when_called(injectorpp::func!(qa, Ta)).will_execute(injectorpp::fake!(func_type: fn(a: i64) -> i64, returns: 5)),
        _ => inj.when_called(injectorpp::func!(qb, Tb)).will_execute_raw(injectorpp::func!(fb, Tb)),
    }
}
struct Fx<F: FnOnce()>(Option<F>);
impl<F: FnOnce()> Drop for Fx<F> { fn drop(&mut self) { (self.0.take().unwrap())() } }
fn in_ctx(ctx: usize, f: impl FnOnce()) {
    if ctx == 0 { f() } else {
        let _ = catch_unwind(AssertUnwindSafe(|| { let _fx = Fx(Some(f)); panic!("the test body fails; fixtures are dropped while unwinding"); }));
    }
}
fn one(ctx: usize, pi: usize, prefix: &[usize], q: usize) {
    let tp = probe_target(q);
    let before = bytes(tp);
    in_ctx(ctx, || {
        let mut inj = InjectorPP::new();
        let mut used = [0usize; 7];
        for &op in prefix { pre(&mut inj, op, used[op]); used[op] += 1; }
        let mut during = None;
        let r = catch_unwind(AssertUnwindSafe(|| { probe(&mut inj, q); during = Some(bytes(tp)); }));
        let v = match &r { Ok(()) => "OK".to_string(), Err(p) => format!("PANIC {}", class(p.as_ref())) };
        let refused_but_modified = r.is_err() && bytes(tp) != before;
        drop(inj);
        println!("S{ctx} {pi} {q} {v} modified_during={} restored={}", if refused_but_modified { 7 } else { during.map(|d| (d != before) as u8).unwrap_or(9) }, (bytes(tp) == before) as u8);
    });
}
fn main() {
    std::panic::set_hook(Box::new(|_| {}));
    let n = 7usize;
    let mut prefixes: Vec<Vec<usize>> = vec![vec![]];
    for a in 0..n { prefixes.push(vec![a]); }
    for a in 0..n { for b in 0..n { prefixes.push(vec![a, b]); } }
    for ctx in 0..2 { for (pi, p) in prefixes.iter().enumerate() { for q in 0..8 { one(ctx, pi, p, q); } } }
}
""")
    return "\n".join(out) + "\n"


def c09(tier, mi):
    v1, c1 = c09_profile(tier, mi, False)
    # the same pairs against a release build of the crate (no debug assertions): a refusal must not
    # depend on the build profile
    v2, c2 = c09_profile(tier, mi, True)
    for v in v2:
        v["key"] += ":release-profile"
        v["what"] += " (crate built with the release profile)"
    for k in ("states", "transitions", "traces_validated_against_impl", "pairs_judged"):
        c1[k] += c2[k]
    c1["profiles"] = ["dev", "release"]
    return v1 + v2, c1


def c09_profile(tier, mi, release):
    rlib, deps = real_rlib(release)
    sfx = "_rel" if release else ""
    NPARTS = 8
    srcs1 = [gen_c09_program(k, NPARTS)[0] for k in range(NPARTS)]
    F = sig_family()
    arms_all = parse_arms(os.path.join(mi["repo"], "src", "interface", "macros.rs"))
    seen_arms = {}
    for a in arms_all:
        seen_arms.setdefault(arm_name(a), a)
    arms = list(seen_arms.values())
    src2, items, kinds, shapes = gen_c09_macro_program(arms)
    progs = {f"c09_pairs{k}{sfx}": srcs1[k] for k in range(NPARTS)}
    progs.update({"c09_macros" + sfx: src2, "c09_context" + sfx: gen_c09_context_program()})
    built = build_many(progs, rlib, deps)
    prefixes = c09_prefixes()
    for name, (ok, err, exe) in built.items():
        if not ok:
            raise MachineryError(f"generated program {name} does not compile against this tree (a well-typed use of the public macros is rejected?): " + err[-1500:])
    viols = []
    lines = []
    for name in list(progs):
        rc, so, se = run_many([[built[name][2]]], timeout=120)[0]
        if rc != 0:
            viols.append({"key": f"{name}:process-died", "what": f"the pair program died with status {rc}: {se[-300:]}", "engine": "e4", "args": ["c09"], "case": {"program": name, "stdout_tail": so[-400:]}})
        lines += so.splitlines()
    judged = 0
    outcomes = set()
    for l in lines:
        p = l.split()
        if len(p) < 5:
            continue
        form, i, j = p[0], int(p[1]), int(p[2])
        verdict = " ".join(p[3:-2])
        mod = p[-2].split("=")[1]
        restored = p[-1].split("=")[1]
        outcomes.add((form, verdict))
        if form in ("A", "B"):
            fi, fj = F[i], F[j]
            same = fi["cls"] == fj["cls"]
            if not (fi["judged"] and fj["judged"]):
                continue
            expect = "OK" if same else "PANIC MISMATCH"
            desc = f"target type `{fi['ty']}`, replacement type `{fj['ty']}` through {'func!' if form == 'A' else 'closure!'}"
        elif form == "E1" or form == "E2":
            expect = "PANIC MISMATCH"
            desc = f"type-carrying pointer paired with one from the unchecked macros ({form}) for `{F[i]['ty']}`"
        elif form == "E3":
            expect = "OK"
            desc = f"fully unchecked installation for `{F[i]['ty']}`"
        elif form == "N":
            expect = "PANIC NULL"
            desc = f"null replacement pointer for `{F[i]['ty']}`"
        elif form == "M":
            (ki, si), (kj, sj) = items[i], items[j]
            same = (ki, si) == (kj, sj)
            expect = "OK" if same else "PANIC MISMATCH"
            desc = f"target `{kinds[ki][0]}({shapes[si][1]}) -> {shapes[si][2]}` via func! spelling, replacement fake!(func_type: {kinds[kj][0]}({shapes[sj][0]}) -> {shapes[sj][2]})"
        elif form == "R":
            a = arms[i]
            ka = ["safe", "unsafe", "C", "system"].index(a["kind"])
            same = (ka * 2 + int(a["unit"])) == j
            expect = "OK" if same else "PANIC MISMATCH"
            desc = f"fake! arm {arm_name(a)} (macros.rs:{a['line']}) against a target of kind {kinds[j // 2][0]}{' -> ()' if j % 2 else ' -> i32'}"
        elif form == "Y":
            expect = "OK" if i == j else "PANIC MISMATCH"
            desc = f"async output types #{i} vs #{j}"
        elif form in ("Y1", "Y2"):
            expect = "PANIC MISMATCH"
            desc = f"checked async call paired with an unchecked async macro ({form})"
        elif form in ("S0", "S1"):
            expect = C09_PROBES[j][1]
            pre = " then ".join(C09_PREFIX_OPS[o] for o in prefixes[i]) or "a fresh injector"
            desc = f"{C09_PROBES[j][0]}, on an injector after [{pre}], context {C09_CONTEXTS[int(form[1])]}"
        else:
            continue
        judged += 1
        key = None
        if verdict != expect:
            kind = "false-accept" if verdict == "OK" else ("false-refusal" if expect == "OK" else "wrong-message")
            key = f"{form}:{kind}"
            what = f"{desc}: got {verdict}, expected {expect}"
        elif verdict.startswith("PANIC") and (restored != "1" or mod == "7"):
            key = f"{form}:refused-but-modified"
            what = f"{desc}: refused, but the target's bytes were modified"
        elif verdict == "OK" and form in ("A", "B", "M", "R", "E3", "S0", "S1") and (mod != "1" or restored != "1"):
            key = f"{form}:accepted-but-not-installed-or-restored"
            what = f"{desc}: accepted, modified_during={mod} restored={restored}"
        if key:
            viols.append({"key": key, "what": what, "engine": "e4", "args": ["c09"], "case": {"line": l, "desc": desc}})
    if judged < 700:
        raise MachineryError(f"vacuous: only {judged} pairs judged")
    cov = {
        "states": judged, "transitions": judged, "traces_validated_against_impl": judged,
        "samples": [l for l in lines[:: max(1, len(lines) // 4)]][:4],
        "pairs_judged": judged, "type_family": [f["ty"] for f in F], "distinct_outcomes": len(outcomes),
        "bound": {"family": f"{len(F)} fn-pointer types (all ordered pairs through func! and closure!), 16 fake!/func! spelling configurations (all ordered pairs), 5 async output types (all ordered pairs), checked x unchecked mixes, null pointers; form S: 8 probe pairs x every prefix of <= 2 earlier operations (7 kinds) on the same injector x (plain | while unwinding)"},
        "exhaustive": True,
        "explanation": "states = (form, target type, replacement type) configurations executed against the unmodified crate in a generated program; accept/refuse, message class, and the target's bytes after a refusal are judged",
    }
    return viols, cov


# ---------------------------------------------------------------------------------------------
# C10 gate

def gate_family():
    G = []

    def add(ty, params, ret, is_bool, qual=""):
        G.append({"ty": ty, "params": params, "ret": ret, "is_bool": is_bool, "qual": qual})

    add("fn() -> bool", "", "bool", True)
    add("fn(i32) -> bool", "a: i32", "bool", True)
    add("fn(i32, i32, i32, i32, i32, i32) -> bool", "a: i32, b: i32, c: i32, d: i32, e: i32, f: i32", "bool", True)
    add("fn(&str) -> bool", "a: &str", "bool", True)
    add("unsafe fn(i32) -> bool", "a: i32", "bool", True, "unsafe")
    add('unsafe extern "C" fn(i32) -> bool', "a: i32", "bool", True, 'unsafe extern "C"')
    add('extern "C" fn() -> bool', "", "bool", True, 'extern "C"')
    add("fn(fn(i32) -> bool) -> bool", "a: fn(i32) -> bool", "bool", True)
    add("fn() -> fn() -> bool", "", "fn() -> bool", False)
    add("fn() -> fn(i32) -> bool", "", "fn(i32) -> bool", False)
    add('fn() -> unsafe extern "C" fn(i32) -> bool', "", 'unsafe extern "C" fn(i32) -> bool', False)
    add("fn(fn(i32) -> bool, i32) -> u64", "a: fn(i32) -> bool, b: i32", "u64", False)
    add("fn(bool) -> Option<fn(i32) -> bool>", "a: bool", "Option<fn(i32) -> bool>", False)
    add("fn() -> Option<bool>", "", "Option<bool>", False)
    add("fn() -> &'static bool", "", "&'static bool", False)
    add("fn() -> *const bool", "", "*const bool", False)
    add("fn() -> u8", "", "u8", False)
    add("fn()", "", "", False)
    add("fn(bool)", "a: bool", "", False)
    add("fn() -> bool_", "", "bool_", False)
    add("fn() -> Result<bool, ()>", "", "Result<bool, ()>", False)
    add("fn() -> (bool, bool)", "", "(bool, bool)", False)
    add("fn() -> [bool; 1]", "", "[bool; 1]", False)
    add("fn() -> String", "", "String", False)
    add("fn() -> i32", "", "i32", False)
    add("fn(bool) -> i32", "a: bool", "i32", False)
    # product family: every parameter-list shape x every return shape (nested parentheses, arrows and the
    # word `bool` inside parameters; fn pointers, tuples and wrappers around `bool` as return types) - the
    # gate has to find the function's own return type whatever the two look like together
    P = [("", []), ("a: i32", ["i32"]), ("a: (u8, u8)", ["(u8, u8)"]), ("a: ()", ["()"]), ("a: fn(u8) -> u8", ["fn(u8) -> u8"]),
         ("a: fn(i32) -> bool", ["fn(i32) -> bool"]), ("a: ((u8,), u8), b: i32", ["((u8,), u8)", "i32"]),
         ("a: fn() -> bool, b: (bool,)", ["fn() -> bool", "(bool,)"]), ("a: fn((u8, u8)) -> (u8, u8)", ["fn((u8, u8)) -> (u8, u8)"]),
         ("a: Option<fn() -> bool>, b: &str", ["Option<fn() -> bool>", "&str"])]
    R = [("bool", True), ("fn() -> bool", False), ("fn(i32) -> bool", False), ("fn((u8, u8)) -> bool", False), ("fn() -> fn() -> bool", False),
         ("Option<bool>", False), ("(bool, bool)", False), ("(bool,)", False), ("", False), ("u8", False), ("bool_", False),
         ("Option<fn() -> bool>", False), ("fn(bool)", False), ("(u8, fn() -> bool)", False)]
    have = {g["ty"] for g in G}
    for params, tys in P:
        for ret, is_bool in R:
            ty = "fn(" + ", ".join(tys) + ")" + (f" -> {ret}" if ret else "")
            if ty not in have:
                have.add(ty)
                add(ty, params, ret, is_bool)
    return G


def gate_value(ret):
    m = {"bool": "false", "fn() -> bool": "rb as fn() -> bool", "fn(i32) -> bool": "rbi as fn(i32) -> bool", 'unsafe extern "C" fn(i32) -> bool': 'rbc as unsafe extern "C" fn(i32) -> bool',
         "u64": "7", "Option<fn(i32) -> bool>": "None", "Option<bool>": "Some(false)", "&'static bool": "&false", "*const bool": "std::ptr::null()", "u8": "0", "": "()",
         "bool_": "bool_(0)", "Result<bool, ()>": "Ok(false)", "(bool, bool)": "(false, false)", "[bool; 1]": "[false]", "String": "String::new()", "i32": "0",
         "fn((u8, u8)) -> bool": "rbt as fn((u8, u8)) -> bool", "fn() -> fn() -> bool": "rbb as fn() -> fn() -> bool", "(bool,)": "(false,)",
         "Option<fn() -> bool>": "None", "fn(bool)": "rub as fn(bool)", "(u8, fn() -> bool)": "(0, rb as fn() -> bool)"}
    return m[ret]


def gen_c10_program():
    G = gate_family()
    out = ['// generated by /verif/lib/e4.py (C10: which signatures may be forced to a boolean)', '#![allow(non_camel_case_types, unused)]',
           'use injectorpp::interface::injector::*;', 'use std::panic::{catch_unwind, AssertUnwindSafe};',
           'pub struct bool_(pub u8);', 'fn rb() -> bool { false }', 'fn rbi(_: i32) -> bool { false }', 'unsafe extern "C" fn rbc(_: i32) -> bool { false }', 'fn rbt(_: (u8, u8)) -> bool { false }', 'fn rbb() -> fn() -> bool { rb }', 'fn rub(_: bool) {}',
           'fn bytes(p: *const ()) -> [u8; 16] { let mut b = [0u8; 16]; unsafe { std::ptr::copy_nonoverlapping(p as *const u8, b.as_mut_ptr(), 16) }; b }']
    for i, g in enumerate(G):
        ret = f" -> {g['ret']}" if g["ret"] else ""
        q = g["qual"] + " " if g["qual"] else ""
        out.append(f"#[inline(never)] {q}fn g{i}({g['params']}){ret} {{ std::hint::black_box({4000 + i}); {gate_value(g['ret'])} }}")
    out.append("fn main() {")
    for i, g in enumerate(G):
        for v in ("true", "false"):
            # the injector outlives the (possibly refused) call: the target is observed while it is still alive
            out.append(f"    {{ let tp = g{i} as {g['ty']} as *const (); let before = bytes(tp); let mut inj = InjectorPP::new();"
                       f" let r = catch_unwind(AssertUnwindSafe(|| {{ inj.when_called(injectorpp::func!(g{i}, {g['ty']})).will_return_boolean({v}); }}));"
                       f" let during = bytes(tp); drop(inj);"
                       f" let msg = match &r {{ Ok(()) => \"ACCEPTED\".to_string(), Err(p) => {{ let m = p.downcast_ref::<String>().cloned().or_else(|| p.downcast_ref::<&str>().map(|s| s.to_string())).unwrap_or_default(); if m.to_lowercase().contains(\"signature\") {{ \"REFUSED\".to_string() }} else {{ format!(\"PANIC-OTHER\") }} }} }};"
                       f" println!(\"G {i} {v} {{msg}} modified_during={{}} restored={{}}\", (during != before) as u8, (bytes(tp) == before) as u8); }}")
    out.append("}")
    return "\n".join(out) + "\n", G


def c10_gate(tier, mi):
    v1, c1 = c10_gate_profile(tier, mi, False)
    # the same gate against a release build of the crate (debug assertions off): a refusal must not
    # depend on the build profile
    v2, c2 = c10_gate_profile(tier, mi, True)
    for v in v2:
        v["key"] += ":release-profile"
        v["what"] += " (crate built with the release profile)"
    c1["states"] += c2["states"]
    c1["transitions"] += c2["transitions"]
    c1["traces_validated_against_impl"] += c2["traces_validated_against_impl"]
    c1["profiles"] = ["dev", "release"]
    return v1 + v2, c1


def c10_gate_profile(tier, mi, release):
    rlib, deps = real_rlib(release)
    src, G = gen_c10_program()
    name = "c10_gate_release" if release else "c10_gate"
    built = build_many({name: src}, rlib, deps)
    ok, err, exe = built[name]
    if not ok:
        raise MachineryError("generated program c10_gate does not compile against this tree: " + err[-1500:])
    rc, so, se = run_many([[exe]], timeout=60)[0]
    viols = []
    if rc != 0:
        viols.append({"key": "gate:process-died", "what": f"the gate program died with status {rc}: {se[-300:]}", "engine": "e4", "args": ["c10"], "case": {"stdout_tail": so[-300:]}})
    judged = 0
    for l in so.splitlines():
        p = l.split()
        if len(p) != 6 or p[0] != "G":
            continue
        g = G[int(p[1])]
        judged += 1
        expect = "ACCEPTED" if g["is_bool"] else "REFUSED"
        if p[3] != expect:
            kind = "non-bool-signature-accepted" if p[3] == "ACCEPTED" else ("bool-signature-refused" if expect == "ACCEPTED" else "wrong-refusal-message")
            viols.append({"key": f"gate:{kind}:{g['ty']}".replace(" ", ""), "what": f"will_return_boolean({p[2]}) on a function of type `{g['ty']}`: {p[3]}, expected {expect}", "engine": "e4", "args": ["c10"], "case": {"type": g["ty"], "line": l}})
        elif p[3] == "REFUSED" and p[4] != "modified_during=0":
            viols.append({"key": "gate:refused-but-installed", "what": f"will_return_boolean({p[2]}) on `{g['ty']}` was refused, yet the target's code is modified while the injector is alive", "engine": "e4", "args": ["c10"], "case": {"type": g["ty"], "line": l}})
        elif p[3] == "ACCEPTED" and p[4] != "modified_during=1":
            viols.append({"key": "gate:accepted-but-not-installed", "what": f"will_return_boolean({p[2]}) on `{g['ty']}` was accepted, yet the target's code is unchanged", "engine": "e4", "args": ["c10"], "case": {"type": g["ty"], "line": l}})
        elif p[3] == "REFUSED" and p[5] != "restored=1":
            viols.append({"key": "gate:refused-but-modified", "what": f"refusal for `{g['ty']}` left the target modified", "engine": "e4", "args": ["c10"], "case": {"type": g["ty"], "line": l}})
    if judged < 2 * len(G):
        raise MachineryError(f"gate program judged only {judged} of {2 * len(G)} cases")
    return viols, {"states": judged, "transitions": judged, "traces_validated_against_impl": judged, "gate_signatures": [g["ty"] for g in G], "samples": so.splitlines()[:2]}
