"""The checks, one function per property family.  Everything a check needs is rebuilt from
/repo's current working tree (mount + incremental cargo build) before the engines run."""
import json, os, subprocess, sys, time
from vlib import *  # noqa: F401,F403

COMMON_ASSUMPTIONS = [
    "the mounted copy of src/ differs from the repository only by the textual rules listed under coverage.mount.rules (tools/mount.py)",
    "rustc/LLVM compile the mounted copy and the unmodified crate to equivalent code (cross-checked by replaying explored cases on the unmodified crate: traces_validated_against_impl)",
    "Linux x86-64 host; macOS/Windows-only code paths of common.rs are not compiled and not covered",
]


def setup():
    t0 = time.time()
    mount()
    build(["vlibc", "vkit", "vcore", "e3m", "e3r"])
    for tool in ("llvm-mc-14",):
        r = subprocess.run(["which", tool], capture_output=True)
        if r.returncode != 0:
            print(f"[vcheck] warning: {tool} not found; ARM decoder cross-checks will be reduced")
    print(f"[vcheck] setup ok in {time.time()-t0:.1f}s")
    return 0


# ---------------------------------------------------------------------------------------------
# E3, install-history family

def _merge_hist(outs):
    m = {"histories": 0, "steps": 0, "prefixes": 0, "model_states": 0, "crashed": 0, "distinct_outcomes": 0,
         "violations": [], "counts": {}, "samples": [], "alphabet": outs[0]["alphabet"], "depth": outs[0]["depth"]}
    for o in outs:
        m["histories"] += o["histories"]
        m["steps"] += o["steps"]
        m["prefixes"] = max(m["prefixes"], o["prefixes"])
        m["model_states"] = max(m["model_states"], o["model_states"])
        m["crashed"] += o["crashed"]
        m["distinct_outcomes"] = max(m["distinct_outcomes"], o["distinct_outcomes"])
        m["violations"] += o["violations"]
        for c in o["violation_counts"]:
            k = (c["prop"], c["key"])
            m["counts"][k] = m["counts"].get(k, 0) + c["count"]
        m["samples"] += o["samples"][:1]
    return m


def hist_family(prop, tier, runs, crash_phases, crash_note, conform, assumptions_extra, per_child=256):
    """Shared body of C02/C03/C12/C17: explore all install histories up to a depth.

    runs: list of (flags, depth, small) explored one after the other; conform: (flags, depth, small)
    replayed on the unmodified crate.  crash_phases: which process deaths count against this
    property (0 inside an operation, 1 calling functions while installed, 2 after the injector went away).
    """
    t0 = time.time()
    mi = mount()
    build(["e3m", "e3r"])
    os.makedirs(os.path.join(WORK, "dig"), exist_ok=True)
    merged = []
    for flags, depth, small in runs:
        args = ["hist", "--depth", str(depth), "--per-child", str(per_child)] + flags + (["--small"] if small else [])
        outs = run_engine_sharded(bin_path("e3"), args, NCPU, timeout=2400)
        m = _merge_hist(outs)
        m["args"] = args
        merged.append(m)
    # conformance: replay every history of the conformance run on the unmodified crate
    cflags, cdepth, csmall = conform
    cargs = ["hist", "--depth", str(cdepth), "--per-child", str(per_child)] + cflags + (["--small"] if csmall else [])
    validated = 0
    for which, b in (("m", "e3"), ("r", "e3real")):
        cmds = [[bin_path(b)] + cargs + ["--shard", f"{i}/{NCPU}", "--digests", os.path.join(WORK, "dig", f"{prop}-{which}-{i}.txt")] for i in range(NCPU)]
        res = run_parallel(cmds, timeout=900)
        for i, (rc, out, err) in enumerate(res):
            if rc != 0:
                raise MachineryError(f"conformance run {b} shard {i} exited {rc}: {err[-1000:]}")
    mismatches = []
    for i in range(NCPU):
        a = open(os.path.join(WORK, "dig", f"{prop}-m-{i}.txt")).read().splitlines()
        b = open(os.path.join(WORK, "dig", f"{prop}-r-{i}.txt")).read().splitlines()
        if len(a) != len(b):
            raise MachineryError("conformance: mounted and unmodified builds enumerated different history sets")
        for x, y in zip(a, b):
            if x.endswith(" 1") or y.endswith(" 1"):
                continue  # a history with a violation / process death: the builds need not agree (the environment refuses harmful calls)
            if x == y:
                validated += 1
            else:
                mismatches.append((x, y))
    # violations of this property
    viols = []
    undecided = 0
    for m in merged:
        mine = []
        for v in sorted(m["violations"], key=lambda v: (v["step"] & 0xFFF, len(v["history"]))):
            p = v["prop"]
            if p == "MACHINERY":
                raise MachineryError(f"{v['key']}: {v['what']} (history {v['history']})")
            take = p == prop
            if p == "*":
                take = (v["step"] >> 12) in crash_phases
                if not take:
                    undecided += 1
            if take:
                mine.append({"key": v["key"], "what": v["what"], "engine": "e3", "args": [a for a in m["args"] if a not in ("--small",)][:1] + [f for f in m["args"] if f in ("--fs", "--text", "--flush")],
                             "case": {"history": v["history"], "step": v["step"] & 0xFFF}})
        # the engine lists the first three cases per key and counts the rest
        for (p, k), n in m["counts"].items():
            have = [v for v in mine if v["key"] == k]
            if have and n > len(have):
                mine += [dict(have[0]) for _ in range(min(n, 1000) - len(have))]
        viols += mine
    cov = {
        "states": sum(m["prefixes"] for m in merged),
        "transitions": sum(m["steps"] for m in merged),
        "traces_validated_against_impl": validated,
        "samples": [s for m in merged for s in m["samples"][:3]],
        "histories": sum(m["histories"] for m in merged),
        "model_states": max(m["model_states"] for m in merged),
        "distinct_outcomes": max(m["distinct_outcomes"] for m in merged),
        "bound": [{"args": m["args"], "depth": m["depth"], "alphabet": m["alphabet"], "histories": m["histories"]} for m in merged]
                 + [{"conformance_replay": cargs}],
        "exhaustive": True,
        "histories_ended_by_process_death": sum(m["crashed"] for m in merged),
        "undecided_histories": undecided,
        "explanation": "states = distinct operation prefixes reached (every prefix is a concrete state of the real process: live objects cannot be copied, so each history is re-executed from a pristine image); transitions = operations executed on the implementation; every history of exactly `depth` enabled operations over the alphabet was run and judged after every operation. " + crash_note,
    }
    if cov["distinct_outcomes"] < 2:
        raise MachineryError("vacuous exploration: fewer than two distinct observation logs")
    if mismatches and not viols:
        raise MachineryError(f"conformance: {len(mismatches)} histories observed differently on the mounted and the unmodified crate, e.g. {mismatches[0]}")
    cov["conformance_mismatches"] = len(mismatches)
    return finish(prop, tier, t0, cov, viols, COMMON_ASSUMPTIONS + assumptions_extra, mi)


def check_c02(tier):
    runs = [(["--fs"], 4, False)] if tier == "quick" else [(["--fs"], 5, False), (["--fs"], 7, True)]
    return hist_family("C02", tier, runs, crash_phases=(1, 2),
                       crash_note="A process death while calling functions or after the injector went away counts as a violation of C02.",
                       conform=(["--fs"], 4 if tier == "thorough" else 3, False),
                       assumptions_extra=["observation calls after every operation do not themselves change state (targets and fakes are pure)"])


def check_c03(tier):
    runs = [(["--fs"], 4, False), (["--fs", "--text"], 3, True)] if tier == "quick" else [(["--fs"], 5, False), (["--fs", "--text"], 4, False)]
    return hist_family("C03", tier, runs, crash_phases=(),
                       crash_note="Process deaths are left to C01/C02 (counted as undecided here).",
                       conform=(["--fs"], 3, False),
                       assumptions_extra=["executable mappings are enumerated from /proc/self/maps; [vvar]/[vsyscall] are skipped",
                                          "arena functions are packed at 16-byte pitch around the targets; a thunk target and an 8-byte-pitch pair are included"])


def check_c12h(tier):
    runs = [(["--fs"], 4, False)] if tier == "quick" else [(["--fs"], 5, False)]
    return hist_family("C12", tier, runs, crash_phases=(),
                       crash_note="Process deaths are left to C01/C02 (counted as undecided here).",
                       conform=(["--fs"], 3, False),
                       assumptions_extra=["trampoline mappings are tracked at the mmap/munmap interface of the crate (vlibc), which is its only way to map memory on Linux"])


def check_c17(tier):
    runs = [(["--fs", "--flush"], 4, False)] if tier == "quick" else [(["--fs", "--flush"], 5, False)]
    return hist_family("C17", tier, runs, crash_phases=(),
                       crash_note="Process deaths are left to C01/C02 (counted as undecided here).",
                       conform=(["--fs"], 3, False),
                       assumptions_extra=["the platform primitive __clear_cache is interposed (on x86-64 it is a no-op in libgcc); the macOS path (sys_icache_invalidate inside patch_function) is not compiled and not covered",
                                          "code bytes are observed at every OS call of the crate and at API entry/return; a write and its flush between two consecutive OS calls are ordered by the content recorded at flush time"])


# ---------------------------------------------------------------------------------------------
# E3, call-count family (C06 sequential, C07, C05 part)

def times_runs(tier, ns, depth_q, depth_t, threads=False):
    depth = depth_q if tier == "quick" else depth_t
    return [(["times", "--n", str(n), "--depth", str(depth)] + (["--threads"] if threads else [])) for n in ns]


def run_times(prop, runs, conform=True):
    """Run the given `e3 times` argument lists; returns (merged list, validated, mismatches)."""
    os.makedirs(os.path.join(WORK, "dig"), exist_ok=True)
    merged = []
    validated = 0
    mismatches = []
    for r, args in enumerate(runs):
        dm = [os.path.join(WORK, "dig", f"{prop}-t{r}-m-{i}.txt") for i in range(NCPU)]
        cmds = [[bin_path("e3")] + args + ["--shard", f"{i}/{NCPU}", "--digests", dm[i]] for i in range(NCPU)]
        res = run_parallel(cmds, timeout=2400)
        outs = []
        for i, (rc, out, err) in enumerate(res):
            if rc != 0:
                raise MachineryError(f"engine e3 {args} shard {i} exited {rc}: {err[-1500:]}")
            outs.append(json.loads(out.strip().splitlines()[-1]))
        m = _merge_hist(outs)
        m["args"] = args
        merged.append(m)
        if conform:
            dr = [os.path.join(WORK, "dig", f"{prop}-t{r}-r-{i}.txt") for i in range(NCPU)]
            cmds = [[bin_path("e3real")] + args + ["--shard", f"{i}/{NCPU}", "--digests", dr[i]] for i in range(NCPU)]
            for i, (rc, out, err) in enumerate(run_parallel(cmds, timeout=2400)):
                if rc != 0:
                    raise MachineryError(f"conformance run e3real {args} shard {i} exited {rc}: {err[-1000:]}")
            for i in range(NCPU):
                a = open(dm[i]).read().splitlines()
                b = open(dr[i]).read().splitlines()
                if len(a) != len(b):
                    raise MachineryError("conformance: different history sets")
                for x, y in zip(a, b):
                    if x.endswith(" 1") or y.endswith(" 1"):
                        continue
                    if x == y:
                        validated += 1
                    else:
                        mismatches.append((x, y))
    return merged, validated, mismatches


def times_family(prop, tier, runs, assumptions_extra, take_props=None):
    t0 = time.time()
    mi = mount()
    build(["e3m", "e3r"])
    merged, validated, mismatches = run_times(prop, runs)
    take_props = take_props or (prop,)
    viols = []
    for m in merged:
        mine = []
        for v in sorted(m["violations"], key=lambda v: (len(v["history"]), v["step"])):
            if v["prop"] == "MACHINERY":
                raise MachineryError(f"{v['key']}: {v['what']}")
            if v["prop"] in take_props:
                mine.append({"key": v["key"], "what": v["what"], "engine": "e3", "args": m["args"][:3],
                             "case": {"history": v["history"], "n": v.get("n"), "step": v["step"]}})
        for (p, k), n in m["counts"].items():
            have = [v for v in mine if v["key"] == k]
            if have and n > len(have):
                mine += [dict(have[0]) for _ in range(min(n, 1000) - len(have))]
        viols += mine
    cov = {
        "states": sum(m["prefixes"] for m in merged),
        "transitions": sum(m["steps"] for m in merged),
        "traces_validated_against_impl": validated,
        "samples": [s for m in merged for s in m["samples"][:2]],
        "histories": sum(m["histories"] for m in merged),
        "distinct_outcomes": max(m["distinct_outcomes"] for m in merged),
        "bound": [{"args": m["args"], "depth": m["depth"], "alphabet": m["alphabet"], "histories": m["histories"]} for m in merged],
        "exhaustive": True,
        "histories_ended_by_process_death": sum(m["crashed"] for m in merged),
        "conformance_mismatches": len(mismatches),
        "explanation": "states = distinct operation prefixes (each executed from a pristine process image, because the per-site call counters are statics of the image); transitions = operations judged; every sequence of exactly `depth` enabled operations over the alphabet B(egin) M/X (matching/non-matching call caught inside the scope) Mu/Xu (same, panic propagates out of the scope) E(nd scope) P(anic) O(utside call) was run for each listed N, all lifetimes of a history evaluating the same fake!(…, times: N) source line",
    }
    if cov["distinct_outcomes"] < 2:
        raise MachineryError("vacuous exploration: fewer than two distinct observation logs")
    if mismatches and not viols:
        raise MachineryError(f"conformance: {len(mismatches)} histories observed differently on the mounted and the unmodified crate, e.g. {mismatches[0]}")
    return finish(prop, tier, t0, cov, viols, COMMON_ASSUMPTIONS + assumptions_extra, mi)


def check_c07(tier):
    runs = times_runs(tier, [0, 1, 2], 8, 10) + times_runs(tier, [1], 6, 8, threads=True)
    return times_family("C07", tier, runs,
                        ["a mismatch with the reference model is attributed to C07 when it occurs in a lifetime that follows earlier use of the same fake! source line, to C06 when it occurs in the first lifetime of a fresh process"])


def check_c06(tier):
    runs = times_runs(tier, [0, 1, 2, 3], 7, 9)
    return times_family("C06", tier, runs, ["sequential part only in this function; the concurrent part is explored by E2"])


def check_c05(tier):
    runs = times_runs(tier, [0, 1, 2], 7, 9)
    return times_family("C05", tier, runs, [])


CHECKS = {
    "C02": check_c02,
    "C03": check_c03,
    "C12": check_c12h,
    "C17": check_c17,
    "C07": check_c07,
    "C06": check_c06,
    "C05": check_c05,
}


def run_check(pid, tier):
    return CHECKS[pid](tier)


def replay(pid, path):
    path = os.path.abspath(path)
    case = json.load(open(path))
    mi = mount()
    eng = case.get("engine")
    if eng == "e3":
        build(["e3m", "e3r"])
        fam_args = case["args"]
        if fam_args and fam_args[0] == "times":
            fam_args = ["times", "--n", str(case["case"].get("n", 1))]
        rc = 0
        for b in ("e3", "e3real"):
            r = subprocess.run([bin_path(b)] + fam_args + ["--replay", path], capture_output=True, text=True, cwd=WORK, env=env_offline())
            if r.returncode != 0:
                print(f"MACHINERY-ERROR replay engine {b} exited {r.returncode}: {r.stderr[-500:]}")
                return 2
            o = json.loads(r.stdout.strip().splitlines()[-1])
            hits = [v for v in o["violations"] if v["prop"] in (pid, "*")]
            print(f"[vcheck] replay on {'mounted' if b == 'e3' else 'unmodified'} crate: {len(hits)} violation record(s)")
            for v in hits[:4]:
                print(f"  {v['prop']} {v['key']}: {v['what']}")
            if any(v["prop"] == "MACHINERY" for v in o["violations"]):
                print("MACHINERY-ERROR nondeterministic replay")
                return 2
            if hits:
                rc = 1
        if rc:
            print(f"VIOLATION property={pid} replay={path}")
        return rc
    print(f"vcheck: cannot replay engine {eng}")
    return 2
