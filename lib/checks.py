"""The checks, one function per property family.  Everything a check needs is rebuilt from
/repo's current working tree (mount + incremental cargo build) before the engines run."""
import re, json, os, subprocess, sys, time
from vlib import *  # noqa: F401,F403

COMMON_ASSUMPTIONS = [
    "the mounted copy of src/ differs from the repository only by the textual rules listed under coverage.mount.rules (tools/mount.py)",
    "rustc/LLVM compile the mounted copy and the unmodified crate to equivalent code (cross-checked by replaying explored cases on the unmodified crate: traces_validated_against_impl)",
    "Linux x86-64 host; macOS/Windows-only code paths of common.rs are not compiled and not covered",
]


def setup():
    t0 = time.time()
    mi = mount()
    build(["vlibc", "vkit", "vcore", "e3m", "e3r"])
    build_e1()
    build(["e2"])
    build(["e3m", "e3r"], profile="nodbg")
    build_e1(profile="release")
    try:
        import e4
        n = e4.prebuild(mi)
        print(f"[vcheck] {n} per-arm programs of the fake! macro prebuilt (dev and release configuration)")
    except Exception as e:  # the checks build what is missing and report what does not build
        print(f"[vcheck] warning: per-arm programs not prebuilt: {str(e)[:200]}")
    for tool in ("llvm-mc-14",):
        r = subprocess.run(["which", tool], capture_output=True)
        if r.returncode != 0:
            print(f"[vcheck] warning: {tool} not found; ARM decoder cross-checks will be reduced")
    print(f"[vcheck] setup ok in {time.time()-t0:.1f}s")
    return 0


# ---------------------------------------------------------------------------------------------
# E3, install-history family

def _merge_hist(outs):
    m = {"histories": 0, "steps": 0, "prefixes": 0, "model_states": 0, "crashed": 0, "distinct_outcomes": 0,
         "violations": [], "counts": {}, "samples": [], "alphabet": outs[0]["alphabet"], "depth": outs[0]["depth"]}
    for o in outs:
        m["histories"] += o["histories"]
        m["steps"] += o["steps"]
        m["prefixes"] = max(m["prefixes"], o["prefixes"])
        m["model_states"] = max(m["model_states"], o["model_states"])
        m["crashed"] += o["crashed"]
        m["distinct_outcomes"] = max(m["distinct_outcomes"], o["distinct_outcomes"])
        m["violations"] += o["violations"]
        for c in o["violation_counts"]:
            k = (c["prop"], c["key"])
            m["counts"][k] = m["counts"].get(k, 0) + c["count"]
        m["samples"] += o["samples"][:1]
    return m


def e3_bin_for(args, which="e3"):
    """(binary, engine argv) for an E3 argument list; the marker `@nodbg` selects the build of the
    harness in which debug assertions and overflow checks are off (profile `nodbg`)."""
    prof = "nodbg" if "@nodbg" in args else "dev"
    return bin_path(which, prof), [a for a in args if not a.startswith("@")]


NODBG_NOTE = "a reduced-depth copy of the exploration runs against a build of the mounted and of the unmodified crate without debug assertions and overflow checks (cargo profile `nodbg`; replay arguments carry `@nodbg`)"


def hist_family(prop, tier, runs, crash_phases, crash_note, conform, assumptions_extra, per_child=256, extra=None):
    """Shared body of C02/C03/C12/C17: explore all install histories up to a depth.

    runs: list of (flags, depth, small) explored one after the other; conform: (flags, depth, small)
    replayed on the unmodified crate.  crash_phases: which process deaths count against this
    property (0 inside an operation, 1 calling functions while installed, 2 after the injector went away).
    """
    t0 = time.time()
    mi = mount()
    build(["e3m", "e3r"])
    build(["e3m", "e3r"], profile="nodbg")
    os.makedirs(os.path.join(WORK, "dig"), exist_ok=True)
    merged = []
    runs = list(runs) + [(runs[0][0] + ["@nodbg"], 3 if tier == "quick" else 4, False)]
    for flags, depth, small in runs:
        args = ["hist", "--depth", str(depth), "--per-child", str(per_child)] + flags + (["--small"] if small else [])
        ebin, eargs = e3_bin_for(args)
        outs = run_engine_sharded(ebin, eargs, NCPU, timeout=2400)
        m = _merge_hist(outs)
        m["args"] = args
        merged.append(m)
    # conformance: replay every history of the conformance run on the unmodified crate
    cflags, cdepth, csmall = conform
    cargs = ["hist", "--depth", str(cdepth), "--per-child", str(per_child)] + cflags + (["--small"] if csmall else [])
    validated = 0
    for which, b in (("m", "e3"), ("r", "e3real")):
        cmds = [[bin_path(b)] + cargs + ["--shard", f"{i}/{NCPU}", "--digests", os.path.join(WORK, "dig", f"{prop}-{which}-{i}.txt")] for i in range(NCPU)]
        res = run_parallel(cmds, timeout=900)
        for i, (rc, out, err) in enumerate(res):
            if rc != 0:
                raise MachineryError(f"conformance run {b} shard {i} exited {rc}: {err[-1000:]}")
    mismatches = []
    for i in range(NCPU):
        a = open(os.path.join(WORK, "dig", f"{prop}-m-{i}.txt")).read().splitlines()
        b = open(os.path.join(WORK, "dig", f"{prop}-r-{i}.txt")).read().splitlines()
        if len(a) != len(b):
            mismatches.append((f"{len(a)} histories judged on the mounted build", f"{len(b)} on the unmodified build (a batch was abandoned after repeated hangs?)"))
        for x, y in zip(a, b):
            if x.endswith(" 1") or y.endswith(" 1"):
                continue  # a history with a violation / process death: the builds need not agree (the environment refuses harmful calls)
            if x == y:
                validated += 1
            else:
                mismatches.append((x, y))
    # violations of this property
    viols = []
    undecided = 0
    for m in merged:
        mine = []
        for v in sorted(m["violations"], key=lambda v: (v["step"] & 0xFFF, len(v["history"]))):
            p = v["prop"]
            if p == "MACHINERY":
                raise MachineryError(f"{v['key']}: {v['what']} (history {v['history']})")
            take = p == prop
            if p == "*":
                take = (v["step"] >> 12) in crash_phases
                if not take:
                    undecided += 1
            if take:
                mine.append({"key": v["key"], "what": v["what"], "engine": "e3", "args": [a for a in m["args"] if a not in ("--small",)][:1] + [f for f in m["args"] if f in ("--fs", "--text", "--flush", "--refusals", "@nodbg")],
                             "case": {"history": v["history"], "step": v["step"] & 0xFFF}})
        # the engine lists the first three cases per key and counts the rest
        for (p, k), n in m["counts"].items():
            have = [v for v in mine if v["key"] == k]
            if have and n > len(have):
                mine += [dict(have[0]) for _ in range(min(n, 1000) - len(have))]
        viols += mine
    cov = {
        "states": sum(m["prefixes"] for m in merged),
        "transitions": sum(m["steps"] for m in merged),
        "traces_validated_against_impl": validated,
        "samples": [s for m in merged for s in m["samples"][:3]],
        "histories": sum(m["histories"] for m in merged),
        "model_states": max(m["model_states"] for m in merged),
        "distinct_outcomes": max(m["distinct_outcomes"] for m in merged),
        "bound": [{"args": m["args"], "depth": m["depth"], "alphabet": m["alphabet"], "histories": m["histories"]} for m in merged]
                 + [{"conformance_replay": cargs}],
        "exhaustive": True,
        "histories_ended_by_process_death": sum(m["crashed"] for m in merged),
        "undecided_histories": undecided,
        "explanation": "states = distinct operation prefixes reached (every prefix is a concrete state of the real process: live objects cannot be copied, so each history is re-executed from a pristine image); transitions = operations executed on the implementation; every history of exactly `depth` enabled operations over the alphabet was run and judged after every operation. " + crash_note,
    }
    if cov["distinct_outcomes"] < 2:
        raise MachineryError("vacuous exploration: fewer than two distinct observation logs")
    if mismatches and not viols:
        raise MachineryError(f"conformance: {len(mismatches)} histories observed differently on the mounted and the unmodified crate, e.g. {mismatches[0]}")
    cov["conformance_mismatches"] = len(mismatches)
    if extra:
        ev, ecov = extra(tier, mi)
        viols += ev
        for k, v in ecov.items():
            if k in ("states", "transitions") and isinstance(v, int):
                cov[k] = cov.get(k, 0) + v
            else:
                cov[k] = v
    return finish(prop, tier, t0, cov, viols, COMMON_ASSUMPTIONS + assumptions_extra + [NODBG_NOTE], mi)


def wide_lifetimes(prop, take):
    """Wide lifetimes (family `wide`): k installations on k distinct synthetic targets in one injector
    lifetime, every k up to the bound x 3 orders x {distinct, with repeated targets} x {scope exit,
    unwinding} x {16-byte, 128-byte pitch}; mounted and unmodified crate."""
    def run(tier, mi):
        kmax = 56 if tier == "quick" else 500
        viols, steps, lifetimes, refused = [], 0, 0, 0
        for b in ("e3", "e3real"):
            outs = run_engine_sharded(bin_path(b), ["wide", "--kmax", str(kmax)], NCPU, timeout=3000)
            for o in outs:
                steps += o["steps"]
                lifetimes += o["lifetimes"]
                refused += o["refused_lifetimes"]
                counts = {(c["prop"], c["key"]): c["count"] for c in o["violation_counts"]}
                for v in o["violations"]:
                    if v["prop"] in take:
                        one = {"key": v["key"], "what": v["what"] + f" ({'mounted' if b == 'e3' else 'unmodified'} crate)", "engine": "e3", "args": ["wide", "--kmax", str(kmax)], "case": {"history": v["history"], "wide": v["wide"]}}
                        viols.append(one)
                        n = counts.pop((v["prop"], v["key"]), 0)
                        viols += [dict(one) for _ in range(max(0, min(n, 200) - 3))]
        if lifetimes < 100:
            raise MachineryError("vacuous: wide family ran fewer than 100 lifetimes")
        return viols, {"states": lifetimes, "transitions": steps, "wide_lifetimes": lifetimes, "wide_lifetimes_cut_short_by_a_refused_installation": refused, "wide_bound": f"k <= {kmax} installations alive in one lifetime x 3 orders x repeats x ending x pitch; mounted and unmodified crate"}
    return run


def chain_extras(*fs):
    def run(tier, mi):
        viols, cov = [], {}
        failed = None
        for f in fs:
            # a part that cannot decide (machinery error, e.g. the code under test keeps process-wide state
            # that makes schedules irreproducible) does not silence a counterexample another part found:
            # one real counterexample is a verdict; without one the machinery error stands
            try:
                v, c = f(tier, mi)
            except MachineryError as e:
                failed = failed or e
                continue
            viols += v
            for k, x in c.items():
                if k in ("states", "transitions") and isinstance(x, int):
                    cov[k] = cov.get(k, 0) + x
                else:
                    cov[k] = x
        if failed is not None:
            if not viols:
                raise failed
            cov["part_without_verdict"] = str(failed)[:300]
        return viols, cov
    return run


def check_c02(tier):
    runs = [(["--fs"], 4, False), (["--fs"], 5, True)] if tier == "quick" else [(["--fs"], 5, False), (["--fs"], 7, True)]
    # refused installations (8 kinds) at every position: they must leave every live fake in effect
    runs.append((["--fs", "--refusals"], 3 if tier == "quick" else 4, True))
    return hist_family("C02", tier, runs, crash_phases=(1, 2),
                       crash_note="A process death while calling functions or after the injector went away counts as a violation of C02.",
                       conform=(["--fs"], 4 if tier == "thorough" else 3, False),
                       assumptions_extra=["observation calls after every operation do not themselves change state (targets and fakes are pure)"],
                       extra=wide_lifetimes("C02", ("C02", "*")))


def c03_bystander(tier, mi):
    """E2: a thread without any guard keeps calling a never-faked function that shares its code page with
    a function another thread fakes and un-fakes; every schedule, scheduling points at every OS call of the crate."""
    tot, raw, samples, cases = e2_run("c03b", tier)
    viols = e2_viols(raw, "c03b")
    if tot["schedules"] < 100 and not viols:
        raise MachineryError("vacuous bystander exploration")
    return viols, {"states": tot["states"], "transitions": tot["steps"], "bystander_schedules": tot["schedules"], "bystander_scenarios": cases,
                   "bystander_bound": "1-3 bystander calls x 1-2 lifetimes (scope exit / unwinding), every schedule; capped scenarios: %d" % tot["capped_cases"]}


def check_c03(tier):
    runs = [(["--fs"], 4, False), (["--fs", "--text"], 3, True)] if tier == "quick" else [(["--fs"], 5, False), (["--fs", "--text"], 3, False), (["--fs", "--text"], 4, True)]
    return hist_family("C03", tier, runs, crash_phases=(),
                       crash_note="Process deaths are left to C01/C02 (counted as undecided here).",
                       conform=(["--fs"], 3, False),
                       assumptions_extra=["executable mappings are enumerated from /proc/self/maps; [vvar]/[vsyscall] are skipped",
                                          "arena functions are packed at 16-byte pitch around the targets; a thunk target and an 8-byte-pitch pair are included",
                                          "wide part: up to 56 (quick) / 500 (thorough) installations alive in one lifetime, never-faked neighbours called and compared; a process death there is a write or a jump outside what the injector owns and is counted",
                                          "concurrent part: a bystander thread (no guard) calls a never-faked function on the same code page as a function that another thread fakes and un-fakes, under every schedule of the crate's OS calls (E2)"],
                       extra=chain_extras(c03_bystander, wide_lifetimes("C03", ("C03", "*"))))


def c12_cycles(tier, mi):
    """Long run of mixed cycles on the mounted and on the unmodified crate; /proc/self/maps before/after."""
    n = 20000 if tier == "quick" else 100000
    viols = []
    steps = 0
    for b in ("e3", "e3real"):
        r = subprocess.run([bin_path(b), "cycles", "--n", str(n)], capture_output=True, text=True, cwd=WORK, env=env_offline(), timeout=3000)
        if r.returncode != 0:
            raise MachineryError(f"{b} cycles exited {r.returncode}: {r.stderr[-500:]}")
        o = json.loads(r.stdout.strip().splitlines()[-1])
        steps += o["steps"]
        for v in o["violations"]:
            if v["prop"] == "C12":
                viols.append({"key": v["key"], "what": v["what"] + f" ({'mounted' if b == 'e3' else 'unmodified'} crate)", "engine": "e3", "args": ["cycles", "--n", str(n)], "case": {"history": v["history"], "cycles": n}})
    return viols, {"transitions": steps, "cycles": n, "cycle_runs": "mounted and unmodified crate; executable anonymous mappings compared through /proc/self/maps before the first and after the last cycle, rwx page count sampled during lifetimes"}


def check_c12h(tier):
    runs = [(["--fs"], 4, False)] if tier == "quick" else [(["--fs"], 5, False)]
    return hist_family("C12", tier, runs, extra=chain_extras(c12_cycles, wide_lifetimes("C12", ("C12",))), crash_phases=(),
                       crash_note="Process deaths are left to C01/C02 (counted as undecided here).",
                       conform=(["--fs"], 3, False),
                       assumptions_extra=["trampoline mappings are tracked at the mmap/munmap interface of the crate (vlibc), which is its only way to map memory on Linux"])


def c17_arm(tier, mi):
    """The same write/flush protocol on the AArch64 and 32-bit ARM back-ends (run on the host): a sample of the
    C15/C16 placements is executed with the flush log on; entry, trampoline and restored bytes must be covered."""
    viols = []
    n = 0
    red = []
    for chk in ("c15", "c16"):
        m, red1 = e1_run(chk, tier)
        red += red1
        n += m["tags"].get("flush-oracle", 0)
        for v in m["violations"]:
            if v["prop"] == "MACHINERY":
                raise MachineryError(f"{v['key']}: {v['what']}")
            if v["prop"] == "C17":
                viols.append({"key": v["key"], "what": v["what"], "engine": "e1", "args": [chk], "case": v["case"]})
    if n == 0 and not viols and not red:
        raise MachineryError("vacuous: the ARM placement runs never exercised the flush oracle")
    return viols, {"transitions": n, "arm_installations_with_flush_oracle": n}


def check_c17(tier):
    runs = [(["--fs", "--flush"], 4, False)] if tier == "quick" else [(["--fs", "--flush"], 5, False)]
    return hist_family("C17", tier, runs, extra=c17_arm, crash_phases=(),
                       crash_note="Process deaths are left to C01/C02 (counted as undecided here).",
                       conform=(["--fs"], 3, False),
                       assumptions_extra=["the platform primitive __clear_cache is interposed (on x86-64 it is a no-op in libgcc); the macOS path (sys_icache_invalidate inside patch_function) is not compiled and not covered",
                                          "code bytes are observed at every OS call of the crate and at API entry/return; a write and its flush between two consecutive OS calls are ordered by the content recorded at flush time"])


# ---------------------------------------------------------------------------------------------
# E3, call-count family (C06 sequential, C07, C05 part)

def times_runs(tier, ns, depth_q, depth_t, threads=False):
    depth = depth_q if tier == "quick" else depth_t
    return [(["times", "--n", str(n), "--depth", str(depth)] + (["--threads"] if threads else [])) for n in ns]


def run_times(prop, runs, conform=True):
    """Run the given `e3 times` argument lists; returns (merged list, validated, mismatches)."""
    os.makedirs(os.path.join(WORK, "dig"), exist_ok=True)
    merged = []
    validated = 0
    mismatches = []
    for r, args in enumerate(runs):
        dm = [os.path.join(WORK, "dig", f"{prop}-t{r}-m-{i}.txt") for i in range(NCPU)]
        ebin, eargs = e3_bin_for(args)
        cmds = [[ebin] + eargs + ["--shard", f"{i}/{NCPU}", "--digests", dm[i]] for i in range(NCPU)]
        res = run_parallel(cmds, timeout=2400)
        outs = []
        for i, (rc, out, err) in enumerate(res):
            if rc != 0:
                raise MachineryError(f"engine e3 {args} shard {i} exited {rc}: {err[-1500:]}")
            outs.append(json.loads(out.strip().splitlines()[-1]))
        m = _merge_hist(outs)
        m["args"] = args
        merged.append(m)
        if conform:
            dr = [os.path.join(WORK, "dig", f"{prop}-t{r}-r-{i}.txt") for i in range(NCPU)]
            rbin, _ = e3_bin_for(args, "e3real")
            cmds = [[rbin] + eargs + ["--shard", f"{i}/{NCPU}", "--digests", dr[i]] for i in range(NCPU)]
            for i, (rc, out, err) in enumerate(run_parallel(cmds, timeout=2400)):
                if rc != 0:
                    raise MachineryError(f"conformance run e3real {args} shard {i} exited {rc}: {err[-1000:]}")
            for i in range(NCPU):
                a = open(dm[i]).read().splitlines()
                b = open(dr[i]).read().splitlines()
                if len(a) != len(b):
                    mismatches.append((f"{len(a)} histories judged on the mounted build", f"{len(b)} on the unmodified build"))
                for x, y in zip(a, b):
                    if x.endswith(" 1") or y.endswith(" 1"):
                        continue
                    if x == y:
                        validated += 1
                    else:
                        mismatches.append((x, y))
    return merged, validated, mismatches


def times_family(prop, tier, runs, assumptions_extra, take_props=None, extra=None, explanation=None):
    t0 = time.time()
    mi = mount()
    build(["e3m", "e3r"])
    build(["e3m", "e3r"], profile="nodbg")
    # a reduced-depth copy of the first run against the build without debug assertions / overflow checks
    first = list(runs[0])
    di = first.index("--depth") + 1
    first[di] = str(max(3, min(int(first[di]) - 1, 5)))
    runs = list(runs) + [first + ["@nodbg"]]
    merged, validated, mismatches = run_times(prop, runs)
    take_props = take_props or (prop,)
    viols = []
    for m in merged:
        mine = []
        for v in sorted(m["violations"], key=lambda v: (len(v["history"]), v["step"])):
            if v["prop"] == "MACHINERY":
                raise MachineryError(f"{v['key']}: {v['what']}")
            if v["prop"] in take_props:
                mine.append({"key": v["key"], "what": v["what"], "engine": "e3", "args": m["args"][:3] + [a for a in m["args"] if a == "@nodbg"],
                             "case": {"history": v["history"], "n": v.get("n"), "step": v["step"], "big_script": v.get("big_script")}})
        for (p, k), n in m["counts"].items():
            have = [v for v in mine if v["key"] == k]
            if have and n > len(have):
                mine += [dict(have[0]) for _ in range(min(n, 1000) - len(have))]
        viols += mine
    cov = {
        "states": sum(m["prefixes"] for m in merged),
        "transitions": sum(m["steps"] for m in merged),
        "traces_validated_against_impl": validated,
        "samples": [s for m in merged for s in m["samples"][:2]],
        "histories": sum(m["histories"] for m in merged),
        "distinct_outcomes": max(m["distinct_outcomes"] for m in merged),
        "bound": [{"args": m["args"], "depth": m["depth"], "alphabet": m["alphabet"], "histories": m["histories"]} for m in merged],
        "exhaustive": True,
        "histories_ended_by_process_death": sum(m["crashed"] for m in merged),
        "conformance_mismatches": len(mismatches),
        "explanation": explanation or "states = distinct operation prefixes (each executed from a pristine process image, because the per-site call counters are statics of the image); transitions = operations judged; every sequence of exactly `depth` enabled operations over the alphabet B(egin) M/X (matching/non-matching call caught inside the scope) Mu/Xu (same, panic propagates out of the scope) E(nd scope) P(anic) O(utside call) was run for each listed N, all lifetimes of a history evaluating the same fake!(…, times: N) source line",
    }
    if cov["distinct_outcomes"] < 2:
        raise MachineryError("vacuous exploration: fewer than two distinct observation logs")
    if mismatches and not viols:
        raise MachineryError(f"conformance: {len(mismatches)} histories observed differently on the mounted and the unmodified crate, e.g. {mismatches[0]}")
    if extra:
        ev, ecov, eass = extra(tier, mi)
        viols += ev
        for k, v in ecov.items():
            if k in ("states", "transitions", "traces_validated_against_impl") and isinstance(v, int):
                cov[k] = cov.get(k, 0) + v
            elif k == "samples":
                cov["samples"] = cov["samples"][:3] + v[:2]
            elif k == "exhaustive":
                cov["exhaustive"] = cov["exhaustive"] and v
            else:
                cov[k] = v
        assumptions_extra = assumptions_extra + eass
    return finish(prop, tier, t0, cov, viols, COMMON_ASSUMPTIONS + assumptions_extra + [NODBG_NOTE], mi)


def check_c14(tier):
    if tier == "quick":
        runs = [["async", "--depth", "3", "--threads"], ["async", "--depth", "6", "--small"]]
    else:
        runs = [["async", "--depth", "4", "--threads"], ["async", "--depth", "7", "--small"]]
    return times_family("C14", tier, runs,
                        ["the executor is a hand-written block_on with a no-op waker that counts polls; one of the two awaits per function and step runs on a freshly spawned OS thread",
                         "async function family: two u32 siblings, &str -> String, a 128-byte by-memory struct, unit, a method, a function that pends once, a function taking a drop-counted argument"],
                        explanation="states = distinct operation prefixes over {FakeAsync(function, checked|unchecked flavour), DropInjector, PanicHere}; after every operation every function of the family is awaited twice (different arguments; directly, nested in an outer async fn, and on a second thread) and judged: ready on the first poll with a freshly evaluated value and the original body not run when faked, original value / poll count / body run when not; transitions = operations executed")


def c07_arm_matrix(tier, mi):
    """The same question across the macro's arm matrix: every `times` arm of the safe / unsafe fn kinds is
    evaluated by two or three lifetimes from one source line (E4 programs); later lifetimes must behave like first ones."""
    import e4
    viols, cov = e4.c08(tier, mi, only_arms=True)
    mine = [dict(v, args=["c08"]) for v in viols if "later-lifetime" in v["key"]]
    return mine, {"states": 0, "arm_matrix_runs": cov["runs"], "arm_matrix_arms": cov["distinct_arms"]}, [
        "arm matrix: generated programs (one per fake! arm) re-evaluate the arm's source line in a loop of lifetimes; compiled against the unmodified crate"]


def check_c07(tier):
    runs = times_runs(tier, [0, 1, 2], 7, 9) + times_runs(tier, [1], 6, 8, threads=True) + big_runs(tier)[:3]
    return times_family("C07", tier, runs,
                        ["a mismatch with the reference model is attributed to C07 when it occurs in a lifetime that follows earlier use of the same fake! source line, to C06 when it occurs in the first lifetime of a fresh process"],
                        extra=c07_arm_matrix)


def c06_concurrent(tier, mi):
    tot, raw, samples, cases = e2_run("c06", tier)
    viols = e2_viols(raw, "c06")
    if tot["distinct_outcomes_max"] < 1 and not viols:
        raise MachineryError("vacuous concurrent exploration")
    cov = {"states": tot["states"], "transitions": tot["steps"], "traces_validated_against_impl": tot["schedules"],
           "schedules": tot["schedules"], "concurrent_scenarios": cases, "samples": samples[:2],
           "concurrent_bound": {"callers": "1-3 (thorough 4) with every split of k <= N+2 calls, every schedule or preemption bound 3; 8 and 16 identical single-call threads with symmetry reduction at preemption bound 2", "preemptions_max_used": tot["max_preemptions"], "capped_scenarios": tot["capped_cases"]},
           "exhaustive": tot["capped_cases"] == 0}
    return viols, cov, E2_ASSUME + ["symmetry reduction (8/16 identical single-call threads): a choice between not-yet-started threads with identical bodies considers the lowest id only; the oracle is a function of the multiset of per-thread observations"]


def c06_arm_matrix(tier, mi):
    """The sequential accounting across the macro's arm matrix: every `times` arm (all function kinds) is driven
    through every call script up to N+2 calls in its own process (E4 programs), with the crate in the dev and in
    the release configuration and the program compiled with and without debug assertions; per-call admission and
    the scope-exit verdict of first lifetimes are C06's."""
    import e4
    viols, cov = e4.c08(tier, mi, only_arms=True)
    mine = [dict(v, args=["c08"]) for v in viols if "_times" in v["key"].split(":")[1] + "_" and "later-lifetime" not in v["key"]
            and any(k in v["key"] for k in ("when-or-times-verdict", "scope-exit-verdict"))]
    return mine, {"arm_matrix_runs": cov["runs"], "arm_matrix_arms": cov["distinct_arms"]}, [
        "arm matrix: generated programs (one per fake! arm), every call script up to N+2 calls for N in 0..2 (thorough 0..3), dev and release configuration"]


def c06_extra(tier, mi):
    v1, c1, a1 = c06_concurrent(tier, mi)
    v2, c2, a2 = c06_arm_matrix(tier, mi)
    cov = dict(c1)
    cov.update(c2)
    return v1 + v2, cov, a1 + a2


BIG_BUDGETS = [255, 256, 257, 65535, 65536, 65537]


def big_runs(tier):
    """Long lifetimes around budgets next to 2^8 and 2^16 (thorough: 2^20 as well): exactly N calls, one more,
    one fewer, two lifetimes, N after an unwound lifetime, an over-call that propagates."""
    return [["times", "--n", str(n), "--big"] for n in BIG_BUDGETS + ([1048575, 1048576, 1048577] if tier == "thorough" else [])]


def check_c06(tier):
    runs = times_runs(tier, [0, 1, 2, 3], 6, 8) + big_runs(tier)
    return times_family("C06", tier, runs, ["a mismatch in the first lifetime of a fresh process is attributed to C06, in a later lifetime to C07"], extra=c06_extra)


def c05_concurrent(tier, mi):
    """C04's harness: the combinations in which a holder lets go by panicking."""
    tot, raw, samples, cases = e2_run("c04", tier)
    keep = ("guard-acquisition-or-use-panicked", "deadlock", "not-restored-after-all-threads-finished", "process-died-6", "process-died-11", "panic-swallowed", "hang")
    viols = [v for v in e2_viols(raw, "c04") if v["key"] in keep and any("p" in r for t in v["case"].get("spec", []) for r in t)]
    cov = {"states": tot["states"], "transitions": tot["steps"], "traces_validated_against_impl": tot["schedules"], "schedules": tot["schedules"], "samples": samples[:2], "exhaustive": tot["capped_cases"] == 0}
    return viols, cov, E2_ASSUME


def c05_refusals(tier, mi):
    """Install histories with library-raised installation failures and user panics at every position."""
    depth = 4 if tier == "quick" else 5
    args = ["hist", "--depth", str(depth), "--per-child", "256", "--fs", "--small", "--refusals"]
    outs = run_engine_sharded(bin_path("e3"), args, NCPU, timeout=2400)
    m = _merge_hist(outs)
    # the same refusals, one level shallower, against the build without debug assertions: a refusal that
    # is only an assertion must not turn into a fault there
    args_n = ["hist", "--depth", str(depth - 1), "--per-child", "256", "--fs", "--small", "--refusals"]
    mn = _merge_hist(run_engine_sharded(bin_path("e3", "nodbg"), args_n, NCPU, timeout=2400))
    viols = []
    for mm, tag in ((m, []), (mn, ["@nodbg"])):
        for v in sorted(mm["violations"], key=lambda v: (v["step"] & 0xFFF, len(v["history"]))):
            if v["prop"] == "MACHINERY":
                raise MachineryError(f"{v['key']}: {v['what']}")
            abnormal = any(o.startswith("R") or o == "P" for o in v["history"])
            if v["prop"] == "C05" or (v["prop"] == "*" and abnormal):
                viols.append({"key": v["key"] + (":nodbg-profile" if tag else ""), "what": v["what"] + (" (build without debug assertions)" if tag else ""), "engine": "e3", "args": ["hist", "--fs", "--refusals"] + tag, "case": {"history": v["history"], "step": v["step"] & 0xFFF}})
    m["steps"] += mn["steps"]
    m["histories"] += mn["histories"]
    for (p, k), n in m["counts"].items():
        have = [v for v in viols if v["key"] == k]
        if have and n > len(have) and p == "C05":
            viols += [dict(have[0]) for _ in range(min(n, 1000) - len(have))]
    cov = {"states": m["prefixes"], "transitions": m["steps"], "refusal_histories": m["histories"], "refusal_alphabet": m["alphabet"], "samples": m["samples"][:2]}
    return viols, cov


def c05_unwound(tier, mi):
    """The full install alphabet of C02 (repeated targets, every install kind, the `times` expectation that
    is unmet at scope exit, user panics): whatever is wrong once a lifetime has ended by a panic - a target
    not restored, a stale fake still answering, a process death while or after the injector goes away - is a
    failure of restoration on the unwinding path, which is C05's claim (C02 judges the same histories for
    restoration in general)."""
    depth = 3 if tier == "quick" else 4
    args = ["hist", "--depth", str(depth), "--per-child", "256", "--fs"]
    outs = run_engine_sharded(bin_path("e3"), args, NCPU, timeout=2400)
    m = _merge_hist(outs)
    viols = []
    n_panic_hist = 0
    for v in sorted(m["violations"], key=lambda v: (v["step"] & 0xFFF, len(v["history"]))):
        if v["prop"] == "MACHINERY":
            raise MachineryError(f"{v['key']}: {v['what']}")
        step = v["step"] & 0xFFF
        ended_by_panic = any(o == "P" or "FakeTimesUnmet" in o for o in v["history"][:max(step, 1)])
        if not ended_by_panic:
            continue
        if v["prop"] in ("C05", "C02") or (v["prop"] == "*" and (v["step"] >> 12) >= 1):
            viols.append({"key": "unwound-lifetime:" + v["key"], "what": v["what"] + " (a lifetime of this history ended by a panic before that point)", "engine": "e3", "args": ["hist", "--fs"], "case": {"history": v["history"], "step": step}})
    cov = {"states": m["prefixes"], "transitions": m["steps"], "unwound_histories": m["histories"], "unwound_alphabet": m["alphabet"]}
    return viols, cov


def c05_extra(tier, mi):
    v1, c1, a1 = c05_concurrent(tier, mi)
    v2, c2 = c05_refusals(tier, mi)
    v3, c3 = c05_unwound(tier, mi)
    v2 = v2 + v3
    c2 = dict(c2)
    for k in ("states", "transitions"):
        c2[k] = c2.get(k, 0) + c3.get(k, 0)
    cov = dict(c1)
    for k in ("states", "transitions"):
        cov[k] = c1.get(k, 0) + c2.get(k, 0)
    cov["samples"] = c1.get("samples", [])[:1] + c2.get("samples", [])[:1]
    cov["refusal_histories"] = c2["refusal_histories"]
    cov["refusal_alphabet"] = c2["refusal_alphabet"]
    cov["unwound_histories"] = c3["unwound_histories"]
    cov["unwound_alphabet"] = c3["unwound_alphabet"]
    return v1 + v2, cov, a1 + ["refused installations (signature mismatch, null pointer, boolean on a non-bool function, no memory for the trampoline, mprotect failure) are injected at every position of every install history up to the depth; an installation that fails in mprotect abandons its trampoline page, which no given property forbids",
                                "the complete install alphabet of C02 (repeated targets, all install kinds, an expectation unmet at scope exit, user panics) to depth 3 (quick) / 4: anything not restored, or a process death, after a lifetime that ended by a panic is counted here as well as in C02"]


def check_c05(tier):
    runs = [r + ["--postmortem"] for r in times_runs(tier, [0, 1, 2], 6, 8)]
    return times_family("C05", tier, runs, [], extra=c05_extra)


# ---------------------------------------------------------------------------------------------
# E1, placement explorer

LLVM_TRIPLE = {"a64": "aarch64", "a32": "armv7", "t32": "thumbv7"}


def llvm_crosscheck(words):
    """words: 'arch|hexbytes|rendering' strings produced by the harness decoders; every one is
    disassembled by llvm-mc-14 and the text compared.  Returns the number cross-checked."""
    by = {}
    for w in set(words):
        arch, hx, txt = w.split("|", 2)
        by.setdefault(arch, []).append((hx, txt))
    n = 0
    for arch, items in by.items():
        items.sort()
        inp = "\n".join(" ".join("0x" + hx[i:i + 2] for i in range(0, len(hx), 2)) for hx, _ in items) + "\n"
        r = subprocess.run(["llvm-mc-14", f"--triple={LLVM_TRIPLE[arch]}", "--disassemble"], input=inp, capture_output=True, text=True)
        if r.returncode != 0:
            raise MachineryError(f"llvm-mc-14 failed for {arch}: {r.stderr[-500:]}")
        lines = [l.strip() for l in r.stdout.splitlines() if l.strip() and not l.strip().startswith(".text")]
        if len(lines) != len(items):
            raise MachineryError(f"llvm-mc-14 decoded {len(lines)} of {len(items)} {arch} words ({r.stderr[-300:]})")
        def norm(t):
            # spellings of the same operand that differ between the two printers
            t = " ".join(t.split())
            t = t.replace("[pc, #-0]", "[pc]").replace("[pc, #0]", "[pc]")
            t = re.sub(r"\bx31\b", "xzr", t)
            t = re.sub(r"\bw31\b", "wzr", t)
            return t
        for (hx, txt), line in zip(items, lines):
            if norm(line) != norm(txt):
                raise MachineryError(f"decoder cross-check: {arch} bytes {hx}: harness decoder says {txt!r}, llvm-mc-14 says {line!r}")
            n += 1
    return n


def e1_run(check, tier, features=True, profile="dev"):
    """Build e1 (with the private-access feature when the mounted tree allows it) and run all shards."""
    reduced = build_e1(profile=profile)
    outs = run_engine_sharded(bin_path("e1", profile), [check, "--tier", tier], NCPU, timeout=3000)
    m = {"cases": 0, "transitions": 0, "tags": {}, "traces": {}, "words": set(), "violations": [], "counts": {}, "samples": [], "domain": outs[0].get("domain")}
    for o in outs:
        m["cases"] += o["cases"]
        m["transitions"] += o["transitions"]
        for k, n in o["tags"].items():
            m["tags"][k] = m["tags"].get(k, 0) + n
        for k, n in o["trace_classes"].items():
            m["traces"][k] = m["traces"].get(k, 0) + n
        m["words"].update(o["words"])
        m["violations"] += o["violations"]
        for c in o["violation_counts"]:
            k = (c["prop"], c["key"])
            m["counts"][k] = m["counts"].get(k, 0) + c["count"]
        m["samples"] += o["samples"][:1]
    return m, reduced


def e1_merge(ms):
    m = {"cases": 0, "transitions": 0, "tags": {}, "traces": {}, "words": set(), "violations": [], "counts": {}, "samples": [], "domain": [x["domain"] for x in ms]}
    for x in ms:
        m["cases"] += x["cases"]
        m["transitions"] += x["transitions"]
        for k, n in x["tags"].items():
            m["tags"][k] = m["tags"].get(k, 0) + n
        for k, n in x["traces"].items():
            m["traces"][k] = m["traces"].get(k, 0) + n
        m["words"] |= x["words"]
        m["violations"] += [dict(v, _check=x["_check"]) for v in x["violations"]]
        for k, n in x["counts"].items():
            m["counts"][k] = m["counts"].get(k, 0) + n
        m["samples"] += x["samples"][:2]
    return m


def e1_family(prop, tier, check, take_props, crash_is_violation, need_tags, assumptions_extra, explanation, extra_results=None):
    t0 = time.time()
    mi = mount()
    checks_ = check if isinstance(check, (list, tuple)) else [check]
    ms = []
    reduced = []
    for c in checks_:
        prof = "dev"
        cname = c
        if c.endswith("@release"):
            # the same domain against a build without overflow checks (wrapped arithmetic of release builds)
            cname, prof = c[:-8], "release"
        m1, reduced = e1_run(cname, tier, profile=prof)
        m1["_check"] = c
        if prof == "release":
            # same keys as the dev-profile run (one finding, whichever profile shows it); the profile
            # is carried in the replay arguments and in the description
            for v in m1["violations"]:
                v["what"] += " (mounted crate built with the release profile: no debug assertions, no overflow checks)"
        ms.append(m1)
    m = e1_merge(ms)
    for r_ in reduced:
        print(f"[vcheck] REDUCED property={prop}: {r_}")
    viols = []
    undecided = []
    for v in m["violations"]:
        p = v["prop"]
        if p == "MACHINERY":
            raise MachineryError(f"{v['key']}: {v['what']} (case {json.dumps(v['case'])[:300]})")
        if p == "UNDECIDED":
            undecided.append(v)
            continue
        if p in take_props or (p == "*" and crash_is_violation):
            key = v["key"]
            viols.append({"key": key, "what": v["what"], "engine": "e1", "args": [v.get("_check", checks_[0])], "case": v["case"]})
    for (p, k), n in m["counts"].items():
        have = [v for v in viols if v["key"] == k]
        if have and n > len(have):
            viols += [dict(have[0]) for _ in range(min(n, 1000) - len(have))]
    if undecided and not viols:
        raise MachineryError(f"undecided: {undecided[0]['what']}")
    for t in ([] if viols else need_tags):
        if not any(k.startswith(t) for k in m["tags"]):
            if reduced:
                continue  # a seam is missing: the domain is reduced, which is recorded, not an error
            raise MachineryError(f"vacuous exploration: no placement exercised branch '{t}' (tags seen: {sorted(m['tags'])})")
    crossed = llvm_crosscheck(m["words"]) if m["words"] else 0
    cov = {
        "states": m["cases"] if all(c.startswith("c01") for c in checks_) else m["transitions"],
        "transitions": m["transitions"],
        # every placement is an execution of the real installer (there is no separate model of the
        # implementation whose traces would need replaying); on x86-64 the abstract machine's verdict
        # is additionally validated by really calling the patched function ("real-call")
        "traces_validated_against_impl": m["tags"].get("real-call", 0) if "real-call" in m["tags"] else m["tags"].get("installed", 0) + sum(n for k, n in m["tags"].items() if k.startswith("installed:")),
        "real_calls": m["tags"].get("real-call", 0),
        "samples": m["samples"][:4],
        "placements": m["transitions"],
        "branch_coverage": m["tags"],
        "distinct_emitted_sequences": m["traces"],
        "decoder_crosschecked": crossed,
        "bound": m["domain"],
        "reduced": reduced,
        "exhaustive": True,
        "explanation": explanation,
    }
    if extra_results:
        ev, ecov = extra_results(tier, mi)
        viols += ev
        for k, v in ecov.items():
            if k in ("states", "transitions", "traces_validated_against_impl") and isinstance(v, int):
                cov[k] = cov.get(k, 0) + v
            elif k == "samples":
                cov["samples"] = cov["samples"][:3] + v[:2]
            else:
                cov[k] = v
    return finish(prop, tier, t0, cov, viols, COMMON_ASSUMPTIONS + assumptions_extra, mi)


E1_ASSUME = [
    "the OS model (hinted anonymous mmap: honour a free hint rounded down to its page, otherwise place elsewhere; munmap page-rounded) stands for Linux; its default answers were probed against this host's kernel, its deviations are the nondeterminism being enumerated",
    "the x86-64 abstract machine is validated on every placement whose fake is mappable by really calling the patched function (coverage.traces_validated_against_impl); the ARM decoders are cross-checked word by word with llvm-mc-14 (coverage.decoder_crosschecked)",
]


def check_c01(tier):
    return e1_family("C01", tier, ["c01", "c01@release"], ("C01",), True,
                     ["entry-straddles-page", "trampoline:long", "trampoline:rel32", "trampoline:bool-stub", "refused", "real-call"],
                     E1_ASSUME + ["Windows-style long entry patches and the macOS patch_function are not compiled on this host"],
                     "states = placements (function address incl. in-page offset x trampoline page displacement x fake address x install kind) each run through the real x86-64 installer under the OS model; transitions = install, call, remove; the whole structured address domain listed under bound was enumerated")


def c13_macro_abi(tier, mi):
    """The macro level of the same question: every fake! arm is instantiated with structs passed by value
    (12-byte all-float, 40-byte) and the generated fake must receive exactly what the caller passed (E4)."""
    import e4
    viols, cov = e4.c08(tier, mi, only_aggregates=True)
    mine = [v for v in viols if "aggregates-by-value" in v["key"]]
    return mine, {"states": cov["distinct_arms"], "transitions": cov["distinct_arms"], "macro_arms_probed_with_by_value_aggregates": cov["distinct_arms"]}


def check_c13(tier):
    return e1_family("C13", tier, ["c01", "probe", "c15"], ("C13",), False,
                     ["trampoline:long", "trampoline:rel32", "entry:rel32"],
                     E1_ASSUME + ["ymm upper halves are probed when the host has AVX (it does); x87/MXCSR state is not probed",
                                  "AArch64: the emitted sequences of the C15 domain are judged on the A64 abstract machine (writes outside x9-x17 break argument / result-pointer / callee-saved registers); AArch32 register discipline is judged by C16"],
                     "states = every placement of the C01 domain: the instruction sequence between caller and fake is run on the x86-64 abstract machine with a fully symbolic register file (write set, stack delta, reads of caller registers), so the verdict holds for all register and stack contents; plus host probes: an assembly caller loads 6 integer and 8 vector argument registers, 4 stack slots and the callee-saved set with walking patterns (6 rounds), an assembly fake records them, for the rel32 and the long trampoline form and a far position-independent fake; plus every fake! arm instantiated with by-value aggregates (generated programs)",
                     extra_results=c13_macro_abi)


def c10_extra(tier, mi):
    """History part: several forced booleans (different targets, different values) alive at once."""
    build(["e3m", "e3r"])
    depth = 4 if tier == "quick" else 5
    args = ["hist", "--depth", str(depth), "--per-child", "256"]
    outs = run_engine_sharded(bin_path("e3"), args, NCPU, timeout=1500)
    m = _merge_hist(outs)
    viols = []
    for v in m["violations"]:
        if v["prop"] == "C10":
            viols.append({"key": v["key"], "what": v["what"], "engine": "e3", "args": ["hist"], "case": {"history": v["history"], "step": v["step"] & 0xFFF}})
    import e4
    gv, gcov = e4.c10_gate(tier, mi)
    viols += gv
    return viols, {"states": m["prefixes"] + gcov["states"], "transitions": m["steps"] + gcov["transitions"], "histories_with_forced_booleans": m["histories"],
                   "gate_signatures": gcov["gate_signatures"], "samples": m["samples"][:1] + gcov["samples"][:1]}


def check_c10(tier):
    return e1_family("C10", tier, ["c01", "probe", "c15"], ("C10",), False,
                     ["trampoline:bool-stub", "bool-probe"],
                     E1_ASSUME + ["AArch32 forwards to Rust functions return_true/return_false; only the branch is the injector's (C16)"],
                     "stub part: both values x every placement of the C01 domain on the x86-64 abstract machine (returns with al = value, write set = {rax}, stack balanced) and by really calling the stub; AArch64 stub on the A64 machine; host assembly probe with walking register patterns; all install histories up to the depth with two boolean targets and both values alive together",
                     extra_results=c10_extra)


def check_c15(tier):
    return e1_family("C15", tier, ["c15", "c15@release"], ("C15",), True,
                     ["installed", "mac:adrp-add-br", "mac:direct-branch"],
                     E1_ASSUME + ["no AArch64 hardware: the verdict is the A64 abstract machine's; macOS common.rs is not compiled, the macOS entry encoder is"],
                     "states = AArch64 installations / encoder calls judged (trampoline: every 16-bit value in every chunk position x 4 backgrounds + boundary cross product; entry: word-aligned displacements through the real allocator path, beyond-window displacements through the private encoder; macOS ADRP/ADD/BR encoder over page differences x low-12 boundary values)")


def check_c16(tier):
    return e1_family("C16", tier, ["c16", "c16@release"], ("C16",), True,
                     ["installed:A32", "installed:T32-0", "installed:T32-2"],
                     E1_ASSUME + ["no 32-bit ARM hardware: the verdict is the A32/T32 abstract machine's"],
                     "states = 32-bit ARM installations judged: 3 entry cases x in-page positions (incl. page-straddling) x fake addresses (each byte exhaustively against 3 backgrounds, both instruction-set states) x 3 target bases")


def check_c11(tier):
    return e1_family("C11", tier, ["c11", "c11@release"], ("C11",), True,
                     ["installed", "refused", "full-scan-mmap-calls"],
                     E1_ASSUME,
                     "states = allocator scans judged: back-end x page size x target address class x in-page offset x neighbourhood layout (empty, full, full except one free page at each listed offset) x single/double deviations of the kernel's answers (MAP_FAILED, in-window page, far page)")


# ---------------------------------------------------------------------------------------------
# E2, schedule explorer

def e2_run(check, tier):
    build(["e2"])
    outs = run_engine_sharded(bin_path("e2"), [check, "--tier", tier], NCPU, timeout=3000)
    tot = {"schedules": 0, "steps": 0, "states": 0, "blocked_lock_schedules": 0, "capped_cases": 0, "distinct_outcomes_max": 0, "max_preemptions": 0}
    viols, samples, cases = [], [], 0
    for o in outs:
        cases += o["cases"]
        for k in ("schedules", "steps", "states", "blocked_lock_schedules", "capped_cases"):
            tot[k] += o["totals"][k]
        for k in ("distinct_outcomes_max", "max_preemptions"):
            tot[k] = max(tot[k], o["totals"][k])
        viols += o["violations"]
        samples += o["samples"][:1]
    return tot, viols, samples, cases


def e2_viols(raw, check, keymap=None):
    out = []
    for v in raw:
        if v["key"] == "scheduler-fatal":
            raise MachineryError(f"{v['what']} (case {json.dumps(v['case'])[:300]})")
        out.append({"key": v["key"], "what": v["what"] + (" | schedule: " + " ".join(v["labels"][:60]) if v.get("labels") else ""),
                    "engine": "e2", "args": [check], "case": v["case"]})
    return out


E2_ASSUME = [
    "scheduled mount: std::sync:: paths of the repository sources resolve to vstd::sync (scheduling-point wrappers around the real std Mutex and atomics; real poisoning, real unwinding on real OS threads); rule R2 match count is in coverage.mount.rules_sched",
    "interleavings are explored at the granularity of synchronisation operations and OS calls of the crate (sequentially consistent); data the crate touches outside its mutex is code memory, whose protocol is C17's subject",
    "threads that call the function being patched while another thread patches it, without holding a guard, are outside the crate's documented contract and not generated (a guard-less thread calling a *different*, never-faked function on the same code page is generated: C03 bystander scenario)",
]


def e2_free_run(tier):
    """Free-running cross-check: the same thread bodies on plain OS threads (real scheduler), and, in the
    thorough tier, once under helgrind.  Its oracles are the exhaustive run's; helgrind output is informational."""
    iters = 100 if tier == "quick" else 3000
    r = subprocess.run([bin_path("e2"), "free", str(iters)], capture_output=True, text=True, cwd=WORK, env=env_offline(), timeout=1200)
    info = {"iterations": iters}
    viols = []
    if r.returncode != 0:
        viols.append({"key": f"free-run-process-died-{r.returncode}", "what": f"the free-running cross-check died with status {r.returncode}: {r.stderr[-300:]}", "engine": "e2", "args": ["free"], "case": {"iterations": iters}})
        return viols, info
    o = json.loads(r.stdout.strip().splitlines()[-1])
    info["runs"] = o["runs"]
    for v in o["violations"]:
        viols.append({"key": "free-run:" + v["key"], "what": v["what"], "engine": "e2", "args": ["free"], "case": {"iteration": v["iteration"]}})
    if tier == "thorough" and subprocess.run(["which", "valgrind"], capture_output=True).returncode == 0:
        h = subprocess.run(["valgrind", "--tool=helgrind", "--smc-check=all", "-q", bin_path("e2"), "free", "3"], capture_output=True, text=True, cwd=WORK, env=env_offline(), timeout=1200)
        blocks = [b for b in h.stderr.split("\n==") if "Possible data race" in b]
        # std's futex mutex and atomics are invisible to helgrind: reports whose stacks stay inside them are noise
        outside = [b for b in blocks if not any(w in b for w in ("futex", "sync::poison", "sys::sync", "atomic", "LOCK_FUNCTION"))]
        info["helgrind"] = {"possible_data_race_reports": len(blocks), "outside_std_sync_and_atomics": len(outside), "first_outside": outside[0][:400] if outside else None}
    return viols, info


def check_c04(tier):
    t0 = time.time()
    mi = mount()
    tot, raw, samples, cases = e2_run("c04", tier)
    viols = e2_viols(raw, "c04")
    fv, finfo = e2_free_run(tier)
    viols += fv
    if tot["blocked_lock_schedules"] == 0 or tot["distinct_outcomes_max"] < 2:
        if not viols:
            raise MachineryError("vacuous exploration: no schedule contained a blocked lock() / fewer than two distinct outcomes")
    cov = {
        "states": tot["states"], "transitions": tot["steps"], "schedules": tot["schedules"],
        "traces_validated_against_impl": tot["schedules"],
        "samples": samples[:4], "scenarios": cases,
        "bound": {"threads": "2 (all guard-kind x exit-path assignments, every schedule) and 3 (preemption bound as listed per scenario); 2 threads x 2 rounds", "preemptions_max_used": tot["max_preemptions"], "capped_scenarios": tot["capped_cases"]},
        "schedules_with_a_blocked_lock": tot["blocked_lock_schedules"],
        "distinct_outcomes": tot["distinct_outcomes_max"],
        "free_running_crosscheck": finfo,
        "exhaustive": tot["capped_cases"] == 0,
        "explanation": "every schedule is an execution of the real crate code on real OS threads under the controlled scheduler (no model of the crate); states = distinct (step, enabled set, choice) fingerprints, transitions = scheduling steps; traces_validated_against_impl = schedules executed (each one is an implementation run)",
    }
    return finish("C04", tier, t0, cov, viols, COMMON_ASSUMPTIONS + E2_ASSUME, mi)


def check_c09(tier):
    import e4
    t0 = time.time()
    mi = mount()
    viols, cov = e4.c09(tier, mi)
    # "raised before anything is modified": observed inside the injector's scope by the E3 refusal histories
    build(["e3m"])
    outs = run_engine_sharded(bin_path("e3"), ["hist", "--depth", "3" if tier == "quick" else "4", "--fs", "--small", "--refusals"], NCPU, timeout=1500)
    m = _merge_hist(outs)
    for v in m["violations"]:
        if v["prop"] == "C09":
            viols.append({"key": v["key"], "what": v["what"], "engine": "e3", "args": ["hist", "--fs", "--refusals"], "case": {"history": v["history"], "step": v["step"] & 0xFFF}})
    cov["states"] += m["prefixes"]
    cov["transitions"] += m["steps"]
    cov["refusal_histories"] = m["histories"]
    return finish("C09", tier, t0, cov, viols, COMMON_ASSUMPTIONS[2:] + [
        "the generated programs are compiled against the unmodified crate; two fn-pointer types are 'written identically' when their type texts are equal after whitespace normalisation (one designated pair spells the unit return two ways)",
        "pairs that differ only in lifetime spelling are executed but not judged"], mi)


def check_c08(tier):
    import e4
    t0 = time.time()
    mi = mount()
    viols, cov = e4.c08(tier, mi)
    if cov["distinct_outcomes"] < 2 and not viols:
        raise MachineryError("vacuous exploration: fewer than two distinct outcomes")
    return finish("C08", tier, t0, cov, viols, COMMON_ASSUMPTIONS[2:] + [
        "generated programs are compiled by rustc against the unmodified crate (harness/realcrate is a verbatim copy of /repo/src; no mounting involved)",
        "the canonical well-typed use per arm: (a: i32, out: &mut i32 | *mut i32) [-> i32], when: a == 1, assign: { *out += 10 }, returns: { count an evaluation; *out + a * 2 } (reads what assign wrote), times: N",
        "a panic inside an extern \"C\"/\"system\" fake aborts by language rule: abort with the expected message on stderr is that arm's modelled outcome"], mi)


CHECKS = {
    "C02": check_c02,
    "C03": check_c03,
    "C12": check_c12h,
    "C17": check_c17,
    "C07": check_c07,
    "C06": check_c06,
    "C05": check_c05,
    "C01": check_c01,
    "C15": check_c15,
    "C16": check_c16,
    "C11": check_c11,
    "C13": check_c13,
    "C10": check_c10,
    "C04": check_c04,
    "C08": check_c08,
    "C09": check_c09,
    "C14": check_c14,
}


def run_check(pid, tier):
    return CHECKS[pid](tier)


def replay(pid, path):
    path = os.path.abspath(path)
    case = json.load(open(path))
    mi = mount()
    eng = case.get("engine")
    if eng == "e3":
        prof = "nodbg" if "@nodbg" in case["args"] else "dev"
        build(["e3m", "e3r"], profile=prof)
        fam_args = [a for a in case["args"] if not a.startswith("@")]
        if fam_args and fam_args[0] == "times":
            fam_args = ["times", "--n", str(case["case"].get("n", 1))]
        if fam_args and fam_args[0] == "async":
            fam_args = ["async", "--threads"]
        rc = 0
        for b in ("e3", "e3real"):
            r = subprocess.run([bin_path(b, prof)] + fam_args + ["--replay", path], capture_output=True, text=True, cwd=WORK, env=env_offline())
            if r.returncode != 0:
                print(f"MACHINERY-ERROR replay engine {b} exited {r.returncode}: {r.stderr[-500:]}")
                return 2
            o = json.loads(r.stdout.strip().splitlines()[-1])
            hits = [v for v in o["violations"] if v["prop"] in (pid, "*")]
            print(f"[vcheck] replay on {'mounted' if b == 'e3' else 'unmodified'} crate: {len(hits)} violation record(s)")
            for v in hits[:4]:
                print(f"  {v['prop']} {v['key']}: {v['what']}")
            if any(v["prop"] == "MACHINERY" for v in o["violations"]):
                print("MACHINERY-ERROR nondeterministic replay")
                return 2
            if hits:
                rc = 1
        if rc:
            print(f"VIOLATION property={pid} replay={path}")
        return rc
    if eng == "e4":
        import e4
        which = case["args"][0]
        viols = (e4.c08("quick", mi)[0] if which == "c08" else e4.c09("quick", mi)[0] if which == "c09" else e4.c10_gate("quick", mi)[0])
        hits = [v for v in viols if v["key"] == case["key"]]
        for v in hits[:3]:
            print(f"  {v['key']}: {v['what']}")
        if hits:
            print(f"VIOLATION property={pid} replay={path}")
            return 1
        print("[vcheck] replay: no violation")
        return 0
    if eng == "e2":
        build(["e2"])
        r = subprocess.run([bin_path("e2")] + case["args"] + ["--replay", path], capture_output=True, text=True, cwd=WORK, env=env_offline())
        if r.returncode != 0:
            print(f"MACHINERY-ERROR replay engine e2 exited {r.returncode}: {r.stderr[-500:]}")
            return 2
        o = json.loads(r.stdout.strip().splitlines()[-1])
        for v in o["violations"][:4]:
            print(f"  {v['key']}: {v['what']}")
        if o["violations"]:
            print(f"VIOLATION property={pid} replay={path}")
            return 1
        print("[vcheck] replay: no violation")
        return 0
    if eng == "e1":
        prof = "release" if case["args"][0].endswith("@release") else "dev"
        eargs = [case["args"][0].split("@")[0]] + case["args"][1:]
        build_e1(profile=prof)
        r = subprocess.run([bin_path("e1", prof)] + eargs + ["--replay", path], capture_output=True, text=True, cwd=WORK, env=env_offline())
        if r.returncode != 0:
            print(f"MACHINERY-ERROR replay engine e1 exited {r.returncode}: {r.stderr[-500:]}")
            return 2
        o = json.loads(r.stdout.strip().splitlines()[-1])
        hits = [v for v in o["violations"] if v["prop"] in (pid, "*")]
        for v in hits[:4]:
            print(f"  {v['prop']} {v['key']}: {v['what']}")
        if hits:
            print(f"VIOLATION property={pid} replay={path}")
            return 1
        print("[vcheck] replay: no violation")
        return 0
    print(f"vcheck: cannot replay engine {eng}")
    return 2
