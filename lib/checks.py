"""The checks, one function per property family.  Everything a check needs is rebuilt from
/repo's current working tree (mount + incremental cargo build) before the engines run."""
import json, os, subprocess, sys, time
from vlib import *  # noqa: F401,F403

COMMON_ASSUMPTIONS = [
    "the mounted copy of src/ differs from the repository only by the textual rules listed under coverage.mount.rules (tools/mount.py)",
    "rustc/LLVM compile the mounted copy and the unmodified crate to equivalent code (cross-checked by replaying explored cases on the unmodified crate: traces_validated_against_impl)",
    "Linux x86-64 host; macOS/Windows-only code paths of common.rs are not compiled and not covered",
]


def setup():
    t0 = time.time()
    mount()
    build(["vlibc", "vkit", "vcore", "e3m", "e3r"])
    for tool in ("llvm-mc-14",):
        r = subprocess.run(["which", tool], capture_output=True)
        if r.returncode != 0:
            print(f"[vcheck] warning: {tool} not found; ARM decoder cross-checks will be reduced")
    print(f"[vcheck] setup ok in {time.time()-t0:.1f}s")
    return 0


# ---------------------------------------------------------------------------------------------
# E3, install-history family

def _merge_hist(outs):
    m = {"histories": 0, "steps": 0, "prefixes": 0, "model_states": 0, "crashed": 0, "distinct_outcomes": 0,
         "violations": [], "counts": {}, "samples": [], "alphabet": outs[0]["alphabet"], "depth": outs[0]["depth"]}
    for o in outs:
        m["histories"] += o["histories"]
        m["steps"] += o["steps"]
        m["prefixes"] = max(m["prefixes"], o["prefixes"])
        m["model_states"] = max(m["model_states"], o["model_states"])
        m["crashed"] += o["crashed"]
        m["distinct_outcomes"] = max(m["distinct_outcomes"], o["distinct_outcomes"])
        m["violations"] += o["violations"]
        for c in o["violation_counts"]:
            k = (c["prop"], c["key"])
            m["counts"][k] = m["counts"].get(k, 0) + c["count"]
        m["samples"] += o["samples"][:1]
    return m


def hist_family(prop, tier, flags, depth_q, depth_t, crash_phases, conform_depth, assumptions_extra, small_q=False, per_child=256):
    """Shared body of C02/C03/C12/C17: explore all install histories up to a depth."""
    t0 = time.time()
    mi = mount()
    build(["e3m", "e3r"])
    depth = depth_q if tier == "quick" else depth_t
    args = ["hist", "--depth", str(depth), "--per-child", str(per_child)] + flags
    if tier == "quick" and small_q:
        args.append("--small")
    os.makedirs(os.path.join(WORK, "dig"), exist_ok=True)
    outs = run_engine_sharded(bin_path("e3"), args, NCPU, timeout=1500)
    m = _merge_hist(outs)
    # conformance: replay every history of the (shallower) conformance depth on the unmodified crate
    cargs = ["hist", "--depth", str(min(depth, conform_depth)), "--per-child", str(per_child)] + [f for f in flags if f in ("--fs",)]
    if "--small" in args:
        cargs.append("--small")
    validated = 0
    cm = []
    for which, b in (("m", "e3"), ("r", "e3real")):
        cmds = [[bin_path(b)] + cargs + ["--shard", f"{i}/{NCPU}", "--digests", os.path.join(WORK, "dig", f"{prop}-{which}-{i}.txt")] for i in range(NCPU)]
        res = run_parallel(cmds, timeout=900)
        for i, (rc, out, err) in enumerate(res):
            if rc != 0:
                raise MachineryError(f"conformance run {b} shard {i} exited {rc}: {err[-1000:]}")
    mismatches = []
    for i in range(NCPU):
        a = open(os.path.join(WORK, "dig", f"{prop}-m-{i}.txt")).read().splitlines()
        b = open(os.path.join(WORK, "dig", f"{prop}-r-{i}.txt")).read().splitlines()
        if len(a) != len(b):
            raise MachineryError("conformance: mounted and unmodified builds enumerated different history sets")
        for x, y in zip(a, b):
            if x == y:
                validated += 1
            else:
                mismatches.append((x, y))
    if mismatches:
        raise MachineryError(f"conformance: {len(mismatches)} histories observed differently on the mounted and the unmodified crate, e.g. {mismatches[0]}")
    # violations of this property
    viols = []
    undecided = 0
    for v in sorted(m["violations"], key=lambda v: (v["step"] & 0xFFF, len(v["history"]))):
        p = v["prop"]
        if p == "MACHINERY":
            raise MachineryError(f"{v['key']}: {v['what']} (history {v['history']})")
        take = p == prop
        if p == "*":
            phase = v["step"] >> 12
            take = phase in crash_phases
            if not take:
                undecided += 1
        if take:
            viols.append({"key": v["key"], "what": v["what"], "engine": "e3", "args": ["hist"] + flags,
                          "case": {"history": v["history"], "step": v["step"] & 0xFFF}})
    # counts of all violating histories per key (the engine lists only the first three of each)
    for (p, k), n in m["counts"].items():
        if p == prop:
            have = sum(1 for v in viols if v["key"] == k)
            viols += [dict(next(v for v in viols if v["key"] == k)) for _ in range(max(0, min(n, 1000) - have))]
    cov = {
        "states": m["prefixes"],
        "transitions": m["steps"],
        "traces_validated_against_impl": validated,
        "samples": m["samples"][:4],
        "histories": m["histories"],
        "model_states": m["model_states"],
        "distinct_outcomes": m["distinct_outcomes"],
        "bound": {"depth": depth, "alphabet": m["alphabet"], "conformance_depth": min(depth, conform_depth)},
        "exhaustive": True,
        "histories_ended_by_crash": m["crashed"],
        "undecided_histories": undecided,
        "explanation": "states = distinct operation prefixes reached (every prefix is a concrete state of the real process: live objects cannot be copied, so each history is re-executed); transitions = operations executed on the implementation; every history of exactly `depth` enabled operations over the alphabet was run and judged after every operation",
    }
    if m["distinct_outcomes"] < 2:
        raise MachineryError("vacuous exploration: fewer than two distinct observation logs")
    return finish(prop, tier, t0, cov, viols, COMMON_ASSUMPTIONS + assumptions_extra, mi)


def check_c02(tier):
    return hist_family("C02", tier, [], 4, 6, crash_phases=(1, 2), conform_depth=4,
                       assumptions_extra=["a process death while calling functions after an operation, or after the injector went away, counts as 'does not behave as before'"])


CHECKS = {
    "C02": check_c02,
}


def run_check(pid, tier):
    return CHECKS[pid](tier)


def replay(pid, path):
    path = os.path.abspath(path)
    case = json.load(open(path))
    mi = mount()
    eng = case.get("engine")
    if eng == "e3":
        build(["e3m", "e3r"])
        fam_args = case["args"]
        rc = 0
        for b in ("e3", "e3real"):
            r = subprocess.run([bin_path(b)] + fam_args + ["--replay", path], capture_output=True, text=True, cwd=WORK, env=env_offline())
            if r.returncode != 0:
                print(f"MACHINERY-ERROR replay engine {b} exited {r.returncode}: {r.stderr[-500:]}")
                return 2
            o = json.loads(r.stdout.strip().splitlines()[-1])
            hits = [v for v in o["violations"] if v["prop"] in (pid, "*")]
            print(f"[vcheck] replay on {'mounted' if b == 'e3' else 'unmodified'} crate: {len(hits)} violation record(s)")
            for v in hits[:4]:
                print(f"  {v['prop']} {v['key']}: {v['what']}")
            if any(v["prop"] == "MACHINERY" for v in o["violations"]):
                print("MACHINERY-ERROR nondeterministic replay")
                return 2
            if hits:
                rc = 1
        if rc:
            print(f"VIOLATION property={pid} replay={path}")
        return rc
    print(f"vcheck: cannot replay engine {eng}")
    return 2
