"""Shared driver helpers: mounting, building, sharded engine runs, known findings, evidence."""
import hashlib, json, os, subprocess, sys, time

VERIF = os.path.dirname(os.path.dirname(os.path.abspath(__file__)))
HARNESS = os.path.join(VERIF, "harness")
WORK = os.path.join(VERIF, "work")
EVID = os.path.join(VERIF, "evidence")
REPLAYS = os.path.join(VERIF, "replays")
TARGET = os.path.join(HARNESS, "target")
NCPU = min(16, os.cpu_count() or 1)


class MachineryError(Exception):
    pass


def env_offline():
    e = dict(os.environ)
    e["CARGO_NET_OFFLINE"] = "true"
    e.setdefault("CARGO_TARGET_DIR", TARGET)
    e.pop("RUSTFLAGS", None)
    return e


def repo_path():
    return os.environ.get("VERIF_REPO", "/repo")


def mount():
    """Mount /repo's current working tree into the harness crates; returns mount info."""
    out = os.path.join(WORK, "mount.json")
    r = subprocess.run([sys.executable, os.path.join(VERIF, "tools", "mount.py"), "--repo", repo_path(), "--out", out],
                       capture_output=True, text=True)
    if r.returncode != 0:
        raise MachineryError("mount failed: " + (r.stderr or r.stdout).strip())
    return json.load(open(out))


def build(packages, profile="dev", features=None):
    """cargo build the given harness packages (incremental; offline)."""
    cmd = ["cargo", "build", "--offline", "-q"]
    for p in packages:
        cmd += ["-p", p]
    if profile == "release":
        cmd.append("--release")
    elif profile != "dev":
        cmd += ["--profile", profile]
    if features:
        cmd += ["--features", ",".join(features)]
    r = subprocess.run(cmd, cwd=HARNESS, env=env_offline(), capture_output=True, text=True)
    if r.returncode != 0:
        raise MachineryError("harness build failed (the repository tree may not compile when mounted):\n" + r.stderr[-4000:])


E1_SEAMS = ["seam_arm64", "seam_arm32", "seam_macsim", "seam_macenc", "priv_amd64", "priv_arm64", "priv_macsim"]
SEAM_LOSS = {
    "seam_arm64": "the AArch64 back-end is not reachable on this tree (its private entry points do not compile when mounted): AArch64 installations are not explored",
    "seam_arm32": "the 32-bit ARM back-end is not reachable on this tree: ARM/Thumb installations are not explored",
    "seam_macsim": "the macOS variant of the AArch64 entry patch does not compile when mounted: not explored",
    "seam_macenc": "the macOS entry encoder is not reachable as a function on this tree: its page-difference domain is not explored",
    "priv_amd64": "module-private x86-64 encoder entry points are not reachable: entry displacements beyond the allocator's window (Windows-style long entry) are not explored",
    "priv_arm64": "module-private AArch64 entry encoder is not reachable: displacements beyond the allocator's window are not explored",
    "priv_macsim": "module-private macOS entry encoder is not reachable: displacements beyond the allocator's window are not explored",
}


def build_e1(profile="dev"):
    """Build e1 with every seam (cargo feature naming private items of the repository) that compiles
    against the mounted tree.  Returns the list of human-readable losses (empty when all seams hold).
    The decision is cached per mounted tree."""
    mount_txt = open(os.path.join(WORK, "mount.json")).read() if os.path.exists(os.path.join(WORK, "mount.json")) else ""
    key = hashlib.sha256((mount_txt + profile).encode()).hexdigest()[:16]
    cache_p = os.path.join(WORK, "seams.json")
    cache = {}
    try:
        cache = json.load(open(cache_p))
    except Exception:
        pass
    feats = cache.get(key)
    if feats is None:
        try:
            build(["e1"], features=["e1/" + f for f in E1_SEAMS], profile=profile)
            feats = list(E1_SEAMS)
        except MachineryError:
            feats = []
            for f in E1_SEAMS:
                try:
                    build(["vcore"], features=["vcore/" + f], profile=profile)
                    feats.append(f)
                except MachineryError:
                    pass
            # a priv_* seam needs its back-end seam
            feats = [f for f in feats if not (f == "priv_arm64" and "seam_arm64" not in feats) and not (f == "priv_macsim" and "seam_macsim" not in feats)]
        cache = {key: feats}
        with open(cache_p, "w") as fh:
            json.dump(cache, fh)
    while True:
        try:
            build(["e1"], features=["e1/" + f for f in feats] or None, profile=profile)
            break
        except MachineryError:
            if not feats:
                raise
            feats = feats[:-1] if len(feats) > 1 else []
            with open(cache_p, "w") as fh:
                json.dump({key: feats}, fh)
    return [SEAM_LOSS[f] for f in E1_SEAMS if f not in feats]


def bin_path(name, profile="dev"):
    return os.path.join(TARGET, "debug" if profile == "dev" else profile, name)


def run_parallel(cmds, timeout=None, max_par=NCPU):
    """Run commands (list of argv) in parallel; returns list of (returncode, stdout, stderr)."""
    results = [None] * len(cmds)
    running = {}
    nxt = 0
    deadline = time.time() + timeout if timeout else None
    while nxt < len(cmds) or running:
        while nxt < len(cmds) and len(running) < max_par:
            p = subprocess.Popen(cmds[nxt], stdout=subprocess.PIPE, stderr=subprocess.PIPE, text=True,
                                 cwd=WORK, env=env_offline())
            running[nxt] = p
            nxt += 1
        done = []
        for i, p in running.items():
            try:
                out, err = p.communicate(timeout=0.05)
                results[i] = (p.returncode, out, err)
                done.append(i)
            except subprocess.TimeoutExpired:
                if deadline and time.time() > deadline:
                    p.kill()
                    out, err = p.communicate()
                    results[i] = (-9, out, err + "\n[vcheck] killed: wall cap reached")
                    done.append(i)
        for i in done:
            del running[i]
    return results


def run_engine_sharded(binary, args, shards, timeout=None):
    """Run `binary args --shard i/n` for all shards; parse one JSON object from each stdout."""
    cmds = [[binary] + args + ["--shard", f"{i}/{shards}"] for i in range(shards)]
    res = run_parallel(cmds, timeout=timeout)
    outs = []
    for i, (rc, out, err) in enumerate(res):
        if rc != 0:
            raise MachineryError(f"engine {os.path.basename(binary)} shard {i} exited {rc}: {err[-2000:]}")
        try:
            outs.append(json.loads(out.strip().splitlines()[-1]))
        except Exception:
            raise MachineryError(f"engine {os.path.basename(binary)} shard {i}: unparsable output: {out[-500:]} {err[-500:]}")
    return outs


# ---------------------------------------------------------------------------------------------
# known findings

def load_known():
    """known_findings.txt, one finding per line (never written at run time):
         open: property=<id> key=<key> <what fails>
         fixed: property=<id> <commit> <what failed>      (suppresses nothing)
    """
    p = os.path.join(VERIF, "known_findings.txt")
    out = []
    if os.path.exists(p):
        for line in open(p):
            line = line.strip()
            if not line or line.startswith("#"):
                continue
            status, _, rest = line.partition(":")
            status = status.strip()
            toks = rest.split()
            ent = {"status": status, "what": ""}
            words = []
            for t in toks:
                if t.startswith("property=") and "property" not in ent:
                    ent["property"] = t[len("property="):]
                elif t.startswith("key=") and "key" not in ent:
                    ent["key"] = t[len("key="):]
                else:
                    words.append(t)
            ent["what"] = " ".join(words)
            out.append(ent)
    return out


def is_known_open(known, prop, key):
    for k in known:
        if k.get("status") == "open" and k.get("property") == prop and k.get("key") == key:
            return k
    return None


# ---------------------------------------------------------------------------------------------
# replay artefacts and verdict

def write_replay(prop, engine, args, case, key, what, tier, mount_info):
    os.makedirs(REPLAYS, exist_ok=True)
    body = {"property": prop, "engine": engine, "args": args, "case": case, "key": key, "what": what, "tier": tier,
            "mount": {"repo": mount_info.get("repo"), "files": mount_info.get("files")}}
    h = hashlib.sha256(json.dumps([prop, engine, args, case, key], sort_keys=True).encode()).hexdigest()[:12]
    path = os.path.join(REPLAYS, f"{prop}-{h}.json")
    with open(path, "w") as f:
        json.dump(body, f, indent=1)
    return path


def finish(prop, tier, t0, coverage, violations, assumptions, mount_info, engine_args=None):
    """Apply known findings, write replay files and evidence, print the verdict lines.

    `violations`: list of dicts {key, what, engine, args, case}; duplicates by key are folded.
    """
    known = load_known()
    seen = {}
    for v in violations:
        seen.setdefault(v["key"], []).append(v)
    exit_code = 0
    known_matched = []
    new_viol = 0
    lines = []
    for key, vs in seen.items():
        v = vs[0]
        k = is_known_open(known, prop, key)
        if k:
            known_matched.append({"key": key, "count": len(vs)})
            lines.append(f"KNOWN-FINDING: property={prop} {k.get('what', v['what'])} [key={key}, {len(vs)} case(s) this run]")
        else:
            path = write_replay(prop, v.get("engine"), v.get("args"), v.get("case"), key, v["what"], tier, mount_info)
            lines.append(f"VIOLATION property={prop} replay={path}")
            lines.append(f"  key={key} cases={len(vs)}: {v['what']}")
            lines.append(f"  case: {json.dumps(v.get('case'))[:600]}")
            new_viol += 1
            exit_code = 1
    coverage = dict(coverage)
    coverage["known_findings_matched"] = known_matched
    coverage["mount"] = {"repo": mount_info.get("repo"), "rules": mount_info.get("rules"),
                         "rules_sched": mount_info.get("rules_sched"), "files": mount_info.get("files")}
    seed = int(os.environ.get("VERIF_SEED", "0") or 0)
    ev = {
        "property_id": prop,
        "tier": tier,
        "seed": seed,
        "level": "model_checking",
        "coverage": coverage,
        "assumptions": assumptions,
        "wall_s": round(time.time() - t0, 2),
        "violations": new_viol,
    }
    os.makedirs(EVID, exist_ok=True)
    with open(os.path.join(EVID, f"{prop}.json"), "w") as f:
        json.dump(ev, f, indent=1)
    for line in lines:
        print(line)
    st = coverage.get("states"), coverage.get("transitions")
    print(f"[vcheck] {prop} {tier}: states={st[0]} transitions={st[1]} validated={coverage.get('traces_validated_against_impl')} "
          f"exhaustive={coverage.get('exhaustive')} violations={new_viol} known={len(known_matched)} wall={ev['wall_s']}s")
    return exit_code
