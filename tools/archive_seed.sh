#!/bin/bash
# usage: archive_seed.sh <prop> <k-in-wt-out> <new-k> "<needs to manifest>"
# verifies /tmp/wt-out/<prop>/<k> in /tmp/wt/<prop> and archives it as /verif/seeded/<prop>-<new-k>
P=$1; K=$2; NK=$3; NEEDS=$4
r=$(/verif/tools/verify_seed.sh /tmp/wt/$P /tmp/wt-out/$P/$K 2>&1 | tail -1)
echo "$r"
case "$r" in *"demo_unchanged_exit=0 demo_with_change_exit="[1-9]*"71 passed"*) ;; *) echo "NOT CONFIRMED"; exit 1;; esac
dst=/verif/seeded/$P-$NK; mkdir -p $dst
for f in /tmp/wt-out/$P/$K/*; do b=$(basename $f); case "$b" in *.log|*.out|out*|suite_*|demo_with*|demo_without*|verify.log|target) ;; *) cp -r "$f" $dst/ ;; esac; done
rm -rf $dst/*/target
python3 - "$P" "$NK" "$NEEDS" "$r" <<'PY'
import json,sys,subprocess
p,nk,needs,r=sys.argv[1:5]
head=subprocess.run(['git','-C','/repo','log','--oneline','-1'],capture_output=True,text=True).stdout.split()[0]
meta={"id": f"{p}-{nk}", "property": p, "origin": "independent sub-agent (second round) given only the property record and a scratch worktree",
 "base_commit": f"{head} (HEAD with all fix: commits)", "needs_to_manifest": needs,
 "confirmed": {"patch_applies": True, "suite_with_change": "71 passed", "demo_with_change": "fails", "demo_without_change": "passes", "how": "tools/verify_seed.sh", "line": r},
 "detected_by": "pending"}
json.dump(meta, open(f"/verif/seeded/{p}-{nk}/meta.json","w"), indent=1)
PY
echo archived $dst
