#!/usr/bin/env python3
"""Regenerate /verif/MANIFEST.json from the table below (keeps claimed checks and the
not_applicable list in step with lib/checks.py)."""
import json, os, sys

VERIF = os.path.dirname(os.path.dirname(os.path.abspath(__file__)))
sys.path.insert(0, os.path.join(VERIF, "lib"))

E1 = "E1 placement explorer"
E2 = "E2 schedule explorer (vsched)"
E3 = "E3 history explorer"
E4 = "E4 configuration explorer"

CLAIMS = {
    "C02": dict(engine=E3, ref="DESIGN.md §5 C02",
                text="every history of install/drop/panic operations up to the stated depth over the stated alphabet (all install flavours, repeated targets, page-straddling, thunk, packed and page-aligned targets, up to `depth` lifetimes) is executed on the implementation; after every operation every target is called and every entry byte compared with a reference model (stack of behaviours per target)",
                note="bounded by depth and alphabet (evidence.coverage.bound); x86-64 Linux code path; a subset of the histories is replayed on the unmodified crate; plus wide lifetimes (every k up to 56 / 500 installations alive at once, 3 orders, repeats, both endings), refused installations of 8 kinds at every position, and a reduced-depth copy against a build without debug assertions",
                technique="exhaustive enumeration of operation sequences up to a depth on the real code (stateless search, fork isolation) against a reference model"),
    "C03": dict(engine=E3, ref="DESIGN.md §5 C03",
                text="the same exhaustive history exploration with a byte-exact diff of a synthetic code arena (functions packed at 16-byte pitch around the targets), calls of never-faked neighbours/siblings/instantiations after every operation, a page-hash snapshot of every executable mapping of the process, and a check that nothing the injector does not own is unmapped",
                note="bounded by depth and alphabet; the full-text snapshot runs on a shallower depth (see evidence); ARM back-ends are covered at placement level by the C15/C16 checks; plus a concurrent part (E2): a thread without a guard calls a never-faked function on the same code page while another thread fakes and un-fakes, every schedule at the crate's OS calls; plus wide lifetimes (k up to 56 / 500 installations alive at once, neighbours called and compared, a process death counted)",
                technique="exhaustive enumeration of operation sequences up to a depth on the real code, memory-diff invariant in every reached state"),
    "C12": dict(engine=E3, ref="DESIGN.md §5 C12",
                text="in every state reached by every install history up to the depth, the set of live trampoline mappings handed out by mmap equals the set of live installations; every munmap is checked against the set of injector-owned mappings (address, page-rounded length); plus a long run of mixed cycles compared through /proc/self/maps",
                note="mappings are observed at the crate's mmap/munmap interface (interposed libc); the cycle run (20 000 quick / 100 000 thorough mixed lifetimes, every third ending by unwinding) compares the executable anonymous mappings in /proc/self/maps before and after, on the mounted and on the unmodified crate; plus wide lifetimes (k up to 56 / 500 installations alive at once)",
                technique="exhaustive enumeration of operation sequences with an explicit resource-state invariant (owned mappings = live installations) in every state"),
    "C17": dict(engine=E3, ref="DESIGN.md §5 C17",
                text="for every API call of every install history up to the depth, every code byte that changed (observed at every OS call of the crate and at API entry/return) must be covered by a later flush request that saw its final value",
                note="__clear_cache is interposed; Linux path only; the ARM back-ends' writes go through the same common.rs functions; AArch64 / 32-bit ARM placements are run with the flush log on as well; a reduced-depth copy runs against a build without debug assertions",
                technique="exhaustive enumeration of operation sequences; write/flush protocol invariant checked on the logged OS-call trace of every transition"),
}

CLAIMS.update({
    "C01": dict(engine=E1, ref="DESIGN.md §5 C01",
                text="every placement of a structured finite address domain (function base class x in-page offset incl. page-straddling entries x trampoline page displacement forced through the OS model x fake displacement across the 64-bit range and around the rel32 boundary x install kind) is run through the real x86-64 installer; the bytes written are followed by an independent abstract machine to their destination and, where the fake is mappable, the patched function is really called",
                note="address domain as listed in evidence.coverage.bound; Windows/macOS paths of common.rs not compiled; install flavours above the trait level are covered by the E3 histories (C02); both build profiles of the mounted crate (dev, release) in both tiers",
                technique="exhaustive enumeration of a structured address/OS-answer domain on the real installer with an OS model; independent decoder + real execution as oracle"),
    "C07": dict(engine=E3, ref="DESIGN.md §5 C07",
                text="every sequence of begin / matching call / non-matching call / scope end / panic / outside call up to the depth, all lifetimes of a history evaluating the same fake!(…, times: N) source line, N in {0,1,2}, each history from a pristine process image; every lifetime must get the verdict the reference model gives a first lifetime",
                note="bounded by depth and N; the deep exploration uses one when+returns+times arm; every `times` arm of the safe/unsafe fn kinds is additionally re-evaluated by 2-3 lifetimes from one source line (generated programs, against the unmodified crate); budgets next to 2^8 (255, 256, 257) are exercised with long lifetimes; an operation K builds a pair ahead of its installation",
                technique="exhaustive enumeration of operation sequences up to a depth on the real code (fork per history) against a reference model"),
    "C11": dict(engine=E1, ref="DESIGN.md §5 C11",
                text="the real allocator + installer (x86-64 and AArch64-Linux, page sizes 4/16/64 KiB) run against a model of the neighbourhood: empty, full, full except one free page at each listed offset incl. both window ends and just outside, and every single (thorough: double) deviation of the kernel's answer; success must branch to exactly the kept mapping, failure must be a panic with the function untouched and every obtained mapping given back",
                note="one-free-page offsets: boundary + strided set in quick, all 65 537 for selected configurations in thorough (evidence lists which); both build profiles of the mounted crate (dev, release)",
                technique="exhaustive enumeration of environment layouts and bounded OS-answer deviations on the real allocator with an OS model"),
    "C13": dict(engine=E1, ref="DESIGN.md §5 C13",
                text="every instruction sequence the x86-64 installer emits over the C01 placement domain is executed on an abstract machine with a fully symbolic register file (so the verdict holds for all register/stack contents): write set within {rax,r10,r11}, no read of a caller register, stack pointer unchanged; plus assembly probes on the host CPU with walking patterns in all argument, vector, stack and callee-saved positions for the short and long trampoline form",
                note="x87/MXCSR not probed; ARM register discipline is judged under C15/C16; every fake! arm is additionally instantiated with structs passed by value (generated programs)",
                technique="exhaustive enumeration of emitted instruction sequences over the placement domain, symbolic-register abstract machine, concrete host probes"),
    "C15": dict(engine=E1, ref="DESIGN.md §5 C15",
                text="the real AArch64 emitters run on the host: trampoline for every 16-bit value in every chunk position against 4 backgrounds plus a boundary cross product; Linux entry branch for word-aligned displacements through the allocator path and beyond the window through the private encoder; macOS ADRP/ADD/BR encoder over page differences x low-12 boundary values; every result executed by an independent A64 abstract machine, every distinct word cross-decoded by llvm-mc-14",
                note="no AArch64 hardware; quick tier strides the displacement and page-difference ranges (thorough enumerates them); both build profiles of the mounted crate",
                technique="exhaustive enumeration of encoder inputs on the real emitters; independent decoder/abstract machine cross-checked with llvm-mc"),
    "C16": dict(engine=E1, ref="DESIGN.md §5 C16",
                text="the real 32-bit ARM installer run on the host for the three entry cases x in-page positions (incl. page-straddling) x fake addresses (each byte exhaustively, both instruction-set states) x three target bases; an independent A32/T32 abstract machine checks the literal actually read, the interworking branch, the bytes changed and restored, and the registers written",
                note="no ARM hardware; known finding: Thumb sequence uses r7 (see known_findings.txt); both build profiles; pointer-sized casts of patch_arm.rs go through the 32-bit types (mount rule R5)",
                technique="exhaustive enumeration of encoder inputs on the real emitter; independent A32/T32 abstract machine cross-checked with llvm-mc"),
})

CLAIMS.update({
    "C04": dict(engine=E2, ref="DESIGN.md §5 C04",
                text="real crate code on real OS threads under a controlled scheduler (scheduling points at every mutex, atomic and OS call of the crate and at harness points): every schedule for 2 threads x all guard-kind/exit-path assignments, preemption-bounded for 3 threads and for 2 threads x 2 rounds; in every schedule at most one guard is alive, a preventer holder sees the original, an injector holder its own fake, waiters get their turn (no panic out of new()/prevent(), no deadlock), bytes restored at the end",
                note="preemption bound and caps per scenario in evidence.coverage.bound; sequentially consistent interleavings of synchronisation operations",
                technique="stateless DFS over thread schedules with iterative preemption bounding (CHESS style) on the real code"),
    "C05": dict(engine=E3, ref="DESIGN.md §5 C05",
                text="every operation sequence up to the depth over begin / calls caught inside or propagating out of the scope / scope end / user panic / outside call with 0-2 pending call-count expectations (fork per history: exit status decides abort vs panic, exactly one panic payload, restored bytes, lock reusable by the next lifetime); plus every schedule of the C04 harness in which a holder lets go by panicking while another thread waits",
                note="library-raised installation failures (signature mismatch, null pointer, boolean refusal, allocation exhaustion, one-shot and persistent mprotect failure) are injected at every position of every install history up to the depth (evidence.coverage.refusal_histories); after every history a fresh thread must obtain and use a new injector within 10 s; refusal kind 7 = straddling target whose second page refuses mprotect; a third part runs the complete C02 install alphabet (repeated targets, an expectation unmet at scope exit, user panics) and counts anything not restored or any process death after a lifetime that ended by a panic (evidence.coverage.unwound_histories); the refusal histories are repeated one level shallower against the build without debug assertions (`:nodbg-profile` keys)",
                technique="exhaustive enumeration of operation sequences with injected panics (crash points) on the real code, fork isolation; schedule exploration for the concurrent part"),
    "C06": dict(engine=E3, ref="DESIGN.md §5 C06",
                text="sequential: every sequence of matching / non-matching calls (caught or propagating), scope ends and panics up to the depth for N in 0..3 against a reference model; concurrent: k <= N+2 matching calls split over 1-3 caller threads under every schedule (3 callers: preemption-bounded), and 8/16 identical single-call threads with symmetry reduction; exactly min(k,N) admissions, scope-exit verdict and message in every schedule",
                note="bounds and caps in evidence.coverage; the counter is the instrumented atomic of the scheduled mount; budgets next to 2^8 and 2^16 (thorough 2^20) with long lifetimes; a 12-arm matrix of `times` arms under 2-3 concurrent callers incl. non-matching ones; the sequential accounting is also judged on every `times` arm of the macro (generated programs, every call script up to N+2 calls, dev and release configuration)",
                technique="exhaustive enumeration of call sequences; stateless DFS over schedules with preemption bounding for the concurrent part"),
})

CLAIMS.update({
    "C08": dict(engine=E4, ref="DESIGN.md §5 C08",
                text="every arm of fake! found in macros.rs at check time is instantiated by one generated program (canonical well-typed use) compiled separately by rustc against the unmodified crate; every compiled arm is driven through every call script over {matching, non-matching} up to length N+2 for N in 0..2, each in its own process, and compared call by call with one reference model (when guards, rejected calls have no side effect, assign before returns, returns evaluated per call with arguments in scope, times as a budget, scope-exit verdict, abort for non-unwinding ABIs)",
                note="one canonical instantiation per arm (two parameters, one by reference/pointer); thorough adds N=3 and scripts up to N+3; two more generated programs per arm: user types named like the macro's own imports, and structs passed by value; every arm program is built and driven in two configurations: dev crate + debug assertions on, release crate + program compiled with -C debug-assertions=off",
                technique="exhaustive enumeration of macro arms x call scripts against a reference model; rustc accept/reject observed per arm"),
    "C09": dict(engine=E4, ref="DESIGN.md §5 C09",
                text="all ordered pairs of a 45-type family (arity, one parameter type, return type, reference mutability, raw-pointer mutability, unsafety, ABI, nested fn pointers, case, equal-length names) through func! and closure!, all ordered pairs of 16 fake!/func!-spelling configurations, every fake! arm against a target of every function kind, all ordered pairs of 5 async output types, checked x unchecked mixes and null pointers, executed against the unmodified crate: refusal iff the types are not written identically, message class, target bytes unchanged after a refusal",
                note="pairs differing only in lifetime spelling are executed but not judged (as the property says); the family now has 45 types (const-generic arguments incl. char, array lengths, tuple vs two parameters, generic arguments, trait objects, prefix names), dev and release build of the crate; probe pairs on an injector after every prefix of <= 2 earlier operations, also while unwinding",
                technique="exhaustive enumeration of signature pairs over a structured type family, executed on the real crate"),
    "C10": dict(engine=E1, ref="DESIGN.md §5 C10",
                text="gate: 156 target signatures (26 hand-picked ones - bool-returning of several shapes; return types that merely end in `-> bool`, contain it elsewhere, or resemble bool - plus the full product of 10 parameter-list shapes with nested parentheses/arrows/`bool` x 14 return shapes) x both values against the unmodified crate; stub: both values x every placement of the C01 domain on the x86-64 abstract machine and by real calls, the AArch64 stub on the A64 machine, a host assembly probe with walking register patterns, and all install histories with two boolean targets alive together",
                note="AArch32 forwards to Rust functions; its branch is judged by C16; the gate runs against a dev and a release build and observes the target while the injector that refused is still alive",
                technique="exhaustive enumeration of a signature family (gate) and of placements/histories (stub) on the real code"),
})

CLAIMS.update({
    "C14": dict(engine=E3, ref="DESIGN.md §5 C14",
                text="every sequence over {fake async function f with the checked or unchecked macros, drop injector, panic} up to the depth over a family of 8 sibling async functions (two with equal output type, &str->String, 128-byte by-memory output, unit, method, one that pends once, one with a drop-counted argument); after every operation every function is awaited twice under a poll-counting executor (directly, nested in an outer async fn, on a second OS thread): faked functions complete on poll 1 with a value evaluated freshly in that await and without running the body, all others behave as originally, and everything is original again after the lifetime",
                note="bounded by depth and family; histories are replayed on the unmodified crate; an operation V makes the value expression of one await panic; an operation U puts an unmet `times:` expectation on the same injector so that lifetimes also end by the verification panic at scope exit; a reduced-depth copy runs against a build without debug assertions",
                technique="exhaustive enumeration of operation sequences up to a depth on the real code against a reference model"),
})

PENDING = {
    "C01": "engine E1", "C04": "engine E2", "C05": "engine E3/E2", "C06": "engine E3/E2", "C07": "engine E3",
    "C08": "engine E4", "C09": "engine E4", "C10": "engine E4/E1", "C11": "engine E1", "C13": "engine E1",
    "C14": "engine E3", "C15": "engine E1", "C16": "engine E1",
}


def main():
    import checks
    props = [json.loads(l)["id"] for l in open(os.path.join(VERIF, "properties.jsonl"))]
    claimed = [p for p in props if p in CLAIMS and p in checks.CHECKS]
    engines = {}
    for p in claimed:
        engines.setdefault(CLAIMS[p]["engine"], []).append(p)
    kinds = {
        E1: ("harness/e1", "bounded exhaustive enumeration of address placements and OS answers; real installers run on the host against an OS model; independent decoders / abstract machines and real execution as oracle"),
        E2: ("harness/vsched", "CHESS-style controlled scheduler over real OS threads with iterative preemption bounding; std::sync primitives of the mounted sources replaced by scheduling-point wrappers"),
        E3: ("harness/shared/e3_main.rs", "bounded exhaustive enumeration of API operation sequences executed on the real code in forked children, judged against a reference model after every step; replayed on the unmodified crate"),
        E4: ("gen/", "one generated program per fake! arm / signature pair, compiled separately against the unmodified crate, driven through all call scripts up to a bound"),
    }
    m = {
        "version": 1,
        "setup_cmd": "bin/vcheck --setup",
        "hooks": {
            "guard": "none (the repository's sources are mounted into the harness crates by tools/mount.py, not edited; no hook code lives in /repo)",
            "enable": "n/a: bin/vcheck mounts and rebuilds from /repo's working tree on every run",
            "baseline_off_cmd": "cd /repo && cargo nextest run --workspace --no-fail-fast --offline",
            "source_commits": [],
            "add_only": True,
        },
        "engines": [{"name": e, "path": kinds[e][0], "serves_properties": ps, "kind_free_text": kinds[e][1]} for e, ps in engines.items()],
        "checks": [
            {
                "property_id": p,
                "quick_cmd": f"bin/vcheck {p} --tier quick",
                "thorough_cmd": f"bin/vcheck {p} --tier thorough",
                "evidence_file": f"evidence/{p}.json",
                "replay_cmd_template": f"bin/vcheck {p} --replay {{path}}",
                "engine": CLAIMS[p]["engine"],
                "level_claimed": {"category": "model_checking", "text": CLAIMS[p]["text"], "design_ref": CLAIMS[p]["ref"]},
                "level_note": CLAIMS[p]["note"],
                "technique": CLAIMS[p]["technique"],
            }
            for p in claimed
        ],
        "notes": "Exit status of every check: 0 held (KNOWN-FINDING lines possible), 1 VIOLATION, 2 machinery error (never a verdict). Known findings: known_findings.txt.",
        "not_applicable": [{"property_id": p, "reason": f"check under construction in this round ({PENDING.get(p, 'engine')}); not claimed until its engine decides it"} for p in props if p not in claimed],
    }
    with open(os.path.join(VERIF, "MANIFEST.json"), "w") as f:
        json.dump(m, f, indent=1)
    print("claimed:", claimed)


if __name__ == "__main__":
    main()
