#!/bin/bash
# Run every seeded defect against the quick check of its own property; one line per seed.
out=${1:-/verif/work/seedmatrix.txt}
: > "$out"
for d in /verif/seeded/*/; do
  s=$(basename "$d"); p=${s%-*}
  /verif/tools/seedtest.sh "$s" "$p" 2>&1 | grep -E "^SEEDTEST|^  key=" | head -3 | cut -c1-260 >> "$out"
done
echo DONE >> "$out"
