#!/bin/bash
# usage: seedtest.sh <seed-id> <property-id>...   — apply a seeded defect to /repo, run the quick
# checks, undo it straight afterwards.  Prints one line per check.
SEED="$1"; shift
P=/verif/seeded/$SEED/patch.diff
cd /repo || exit 2
if ! git diff --quiet; then echo "seedtest: /repo has uncommitted changes"; exit 2; fi
git apply "$P" 2>/dev/null || git apply --3way "$P" 2>/dev/null || { echo "SEEDTEST $SEED: patch does not apply to current HEAD"; git checkout -q -- .; exit 3; }
for id in "$@"; do
  out=$(cd /verif && bin/vcheck "$id" --tier quick 2>&1); rc=$?
  echo "SEEDTEST $SEED check=$id exit=$rc $(echo "$out" | grep -m1 -E 'VIOLATION|MACHINERY' )"
  echo "$out" | grep -E "^  key=" | head -3
done
git -C /repo checkout -q -- . ; git -C /repo reset -q
