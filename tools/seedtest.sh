#!/bin/bash
# usage: seedtest.sh <seed-id> <property-id>...   — apply a seeded defect to /repo, run the quick
# checks, undo it straight afterwards.  Prints one line per check.
SEED="$1"; shift
P=/verif/seeded/$SEED/patch.diff; [ -f /verif/seeded/$SEED/patch.rebased.diff ] && P=/verif/seeded/$SEED/patch.rebased.diff
cd /repo || exit 2
if ! git diff --quiet; then echo "seedtest: /repo has uncommitted changes"; exit 2; fi
if ! git apply "$P" 2>/dev/null; then
  if ! git apply --3way "$P" >/dev/null 2>&1 || ! git diff --quiet --diff-filter=U 2>/dev/null || git status --short | grep -q '^UU'; then
    echo "SEEDTEST $SEED: patch does not apply to current HEAD"; git reset -q --hard HEAD; exit 3
  fi
  git reset -q   # keep the merged result in the working tree only
fi
for id in "$@"; do
  out=$(cd /verif && bin/vcheck "$id" --tier quick 2>&1); rc=$?
  echo "SEEDTEST $SEED check=$id exit=$rc $(echo "$out" | grep -m1 -E 'VIOLATION|MACHINERY' )"
  echo "$out" | grep -E "^  key=" | head -3
done
git -C /repo checkout -q -- . ; git -C /repo reset -q
