#!/bin/bash
# usage: verify_seed.sh <worktree> <seed-dir>
# Confirms an independently produced seeded defect: patch applies, suite passes with it (71),
# demonstration fails with it and passes without.  Prints one summary line.
WT="$1"; SD="$2"
cd "$WT" || exit 2
git checkout -q -- . ; git clean -fdq tests src 2>/dev/null
log="$SD/verify.log"; : > "$log"
bash "$SD/run.sh" "$WT" >> "$log" 2>&1; base=$?
git apply "$SD/patch.diff" >> "$log" 2>&1 || { echo "SEED $SD: patch does not apply"; exit 1; }
suite=$(cargo nextest run --workspace --no-fail-fast --offline 2>&1 | tee -a "$log" | grep -E "tests run:" | tail -1)
bash "$SD/run.sh" "$WT" >> "$log" 2>&1; mut=$?
git checkout -q -- . ; git clean -fdq tests src 2>/dev/null
echo "SEED $SD: demo_unchanged_exit=$base demo_with_change_exit=$mut suite_with_change='$suite'"
