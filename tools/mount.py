#!/usr/bin/env python3
"""Mount the repository's sources into the harness crates (DESIGN.md §3.1).

The crate root of each harness package *is* the repository's own src/lib.rs (copied), with one
line appended that pulls in the harness access module; every other file under src/ is copied
verbatim except for the purely textual rules below.  Files are rewritten only when their content
changed, so cargo rebuilds exactly what an edit to the repository requires.

usage: mount.py [--repo DIR] [--out FILE]     (DIR defaults to $VERIF_REPO or /repo)
exit status: 0 ok, 2 a rule's precondition failed (machinery error, never a verdict)
"""
import hashlib, json, os, re, sys

VERIF = os.path.dirname(os.path.dirname(os.path.abspath(__file__)))
HARNESS = os.path.join(VERIF, "harness")

CFG_ARCH = re.compile(r'^#!\[cfg\(target_arch\s*=\s*"(aarch64|arm)"\)\]\s*$', re.M)

LINUXAPI = '''// replaced by /verif/tools/mount.py: the platform primitive is interposed by the harness
pub(crate) use libc::venv::__clear_cache;
'''


R4_ARM64 = '''
// [verif-mount R4] accessor for the module-private entry encoder
#[cfg(feature = "@PRIV@")]
pub(crate) mod __verif_access {
    use crate::injector_core::common::*;
    pub(crate) fn apply(src: FuncPtrInternal, jit: *mut u8, size: usize, orig: &[u8]) -> PatchGuard {
        super::apply_branch_patch(src, jit, size, orig)
    }
}
'''

R4_AMD64 = '''
// [verif-mount R4] accessors for the module-private encoder entry points
#[cfg(feature = "priv_amd64")]
pub(crate) mod __verif_access {
    use crate::injector_core::common::*;
    pub(crate) fn branch(ori: usize, target: usize) -> Vec<u8> {
        super::generate_branch_to_target_function(ori, target)
    }
    pub(crate) fn patch(src: FuncPtrInternal, jit: *mut u8, size: usize) -> PatchGuard {
        super::patch_and_guard(src, jit, size)
    }
}
'''


def sha(b):
    return hashlib.sha256(b).hexdigest()


def write_if_changed(path, text):
    os.makedirs(os.path.dirname(path), exist_ok=True)
    try:
        with open(path, "r") as f:
            if f.read() == text:
                return False
    except FileNotFoundError:
        pass
    with open(path, "w") as f:
        f.write(text)
    return True


def mount_variant(repo, variant, dst, access_path, counts):
    src_root = os.path.join(repo, "src")
    if not os.path.isfile(os.path.join(src_root, "lib.rs")):
        print(f"mount: {src_root}/lib.rs not found", file=sys.stderr)
        sys.exit(2)
    hashes = {}
    wanted = set()
    for dirpath, _, files in os.walk(src_root):
        for fn in sorted(files):
            if not fn.endswith(".rs"):
                continue
            full = os.path.join(dirpath, fn)
            rel = os.path.relpath(full, src_root)
            raw = open(full, "rb").read()
            hashes[rel] = sha(raw)
            text = raw.decode("utf-8")
            # R1: let the aarch64 / arm back-ends compile on the x86-64 host -- each behind a cargo
            # feature of the harness crate ("seam"), so that a back-end that stops compiling on the
            # host costs that back-end's sub-domain only, never the whole build
            def r1(m, rel=rel):
                if m.group(1) == "arm":
                    feat = 'feature = "seam_arm32"'
                elif os.path.basename(rel) == "patch_arm64.rs":
                    feat = 'feature = "seam_arm64"'
                else:
                    feat = 'any(feature = "seam_arm64", feature = "seam_macsim", feature = "seam_macenc")'
                return f"#![cfg({feat})] // [verif-mount R1] was: " + m.group(0).strip()[3:]
            text, n = CFG_ARCH.subn(r1, text, count=1)
            counts["R1"] = counts.get("R1", 0) + n
            # shimmed leaf: linuxapi.rs
            if rel == os.path.join("injector_core", "linuxapi.rs"):
                text = LINUXAPI
                counts["linuxapi"] = counts.get("linuxapi", 0) + 1
            # R2: scheduled variant sees instrumented sync primitives
            if variant == "sched":
                n2 = text.count("std::sync::")
                text = text.replace("std::sync::", "vstd::sync::")
                text = text.replace("core::sync::atomic::", "vstd::sync::atomic::")
                counts["R2"] = counts.get("R2", 0) + n2
            # R3: macOS entry encoder compiled on the host (encoder only; common.rs is untouched)
            if rel == os.path.join("injector_core", "arm64_codegenerator.rs"):
                n3 = text.count('#[cfg(target_os = "macos")]')
                text = text.replace('#[cfg(target_os = "macos")]', '#[cfg(all())] // [verif-mount R3]')
                counts["R3"] = counts.get("R3", 0) + n3
            # R5: pointer width of the 32-bit ARM target.  On the target `usize`/`isize` are 32 bits wide,
            # so a pointer cast to them is truncated / sign-carrying at bit 31; on the 64-bit host the
            # same text would compute with 64 bits.  In the 32-bit ARM back-end every cast to the
            # pointer-sized integers goes through the 32-bit type first (the harness keeps every ARM
            # address below 4 GiB, as the back-end's own `as u32` casts already require).
            if rel == os.path.join("injector_core", "patch_arm.rs"):
                text, n5a = re.subn(r"\bas isize\b", "as i32 as isize", text)
                text, n5b = re.subn(r"\bas usize\b", "as u32 as usize", text)
                counts["R5"] = counts.get("R5", 0) + n5a + n5b
            # R4: accessors for module-private encoder entry points (only compiled with feature priv_access)
            if rel == os.path.join("injector_core", "patch_arm64.rs"):
                text = text.rstrip("\n") + "\n" + R4_ARM64.replace("@PRIV@", "priv_arm64")
                counts["R4"] = counts.get("R4", 0) + 1
            if rel == os.path.join("injector_core", "patch_amd64.rs"):
                text = text.rstrip("\n") + "\n" + R4_AMD64
                counts["R4"] = counts.get("R4", 0) + 1
            if rel == "lib.rs":
                text = text.rstrip("\n") + "\n\n// [verif-mount] harness access module\n" \
                    + f'#[path = "{access_path}"]\npub mod vaccess;\n' \
                    + '#[cfg(feature = "seam_macsim")]\n#[path = "injector_core/patch_arm64_macsim.rs"]\npub(crate) mod patch_arm64_macsim;\n'
            wanted.add(rel)
            write_if_changed(os.path.join(dst, rel), text)
    # R3b: a second copy of patch_arm64.rs with the macOS branch of apply_branch_patch selected
    p64 = os.path.join(src_root, "injector_core", "patch_arm64.rs")
    if os.path.isfile(p64):
        text = open(p64).read()
        text = CFG_ARCH.sub(lambda m: '#![cfg(feature = "seam_macsim")] // [verif-mount R1] was: ' + m.group(0).strip()[3:], text, count=1)
        text = text.replace('not(target_os = "macos")', 'any()').replace('target_os = "macos"', 'all()')
        text = text.rstrip("\n") + "\n" + R4_ARM64.replace("@PRIV@", "priv_macsim")
        rel = os.path.join("injector_core", "patch_arm64_macsim.rs")
        wanted.add(rel)
        write_if_changed(os.path.join(dst, rel), text)
        counts["R3b"] = 1
    # drop files that disappeared from the repository
    for dirpath, _, files in os.walk(dst):
        for fn in files:
            rel = os.path.relpath(os.path.join(dirpath, fn), dst)
            if rel not in wanted:
                os.remove(os.path.join(dirpath, fn))
    return hashes


def main():
    repo = os.environ.get("VERIF_REPO", "/repo")
    out = None
    a = sys.argv[1:]
    while a:
        if a[0] == "--repo":
            repo = a[1]; a = a[2:]
        elif a[0] == "--out":
            out = a[1]; a = a[2:]
        else:
            print(__doc__); sys.exit(2)
    counts = {}
    hashes = mount_variant(repo, "plain", os.path.join(HARNESS, "vcore", "mounted"),
                           os.path.join(HARNESS, "vcore", "src", "access.rs"), counts)
    counts_s = {}
    mount_variant(repo, "sched", os.path.join(HARNESS, "vsched", "mounted"),
                  os.path.join(HARNESS, "vcore", "src", "access.rs"), counts_s)
    # verbatim copy: the unmodified crate the conformance replays link against
    real_dst = os.path.join(HARNESS, "realcrate", "src")
    wanted = set()
    for dirpath, _, files in os.walk(os.path.join(repo, "src")):
        for fn in files:
            full = os.path.join(dirpath, fn)
            rel = os.path.relpath(full, os.path.join(repo, "src"))
            wanted.add(rel)
            write_if_changed(os.path.join(real_dst, rel), open(full, encoding="utf-8").read())
    for dirpath, _, files in os.walk(real_dst):
        for fn in files:
            rel = os.path.relpath(os.path.join(dirpath, fn), real_dst)
            if rel not in wanted:
                os.remove(os.path.join(dirpath, fn))
    if counts.get("R1", 0) < 1:
        print("mount: rule R1 matched nothing (no arch-gated back-end files found)", file=sys.stderr)
        sys.exit(2)
    if counts.get("linuxapi", 0) != 1:
        print("mount: linuxapi.rs not found", file=sys.stderr)
        sys.exit(2)
    if counts_s.get("R2", 0) < 1:
        print("mount: rule R2 matched nothing", file=sys.stderr)
        sys.exit(2)
    info = {"repo": repo, "files": hashes, "rules": counts, "rules_sched": {"R2": counts_s.get("R2", 0)}}
    text = json.dumps(info, indent=1, sort_keys=True)
    if out:
        write_if_changed(out, text)
    else:
        print(text)


if __name__ == "__main__":
    main()
