#!/bin/bash
# Run every thorough command once, record exit status and wall time.
out=/verif/work/thorough.log; : > $out
for c in ${@:-C01 C02 C03 C04 C05 C06 C07 C08 C09 C10 C11 C12 C13 C14 C15 C16 C17}; do
  s=$(date +%s); (cd /verif && bin/vcheck $c --tier thorough > /verif/work/thorough.$c.out 2>&1); rc=$?
  echo "$c exit=$rc wall=$(( $(date +%s) - s ))s $(tail -1 /verif/work/thorough.$c.out | cut -c1-200)" >> $out
done
echo DONE >> $out
