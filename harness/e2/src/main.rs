//! E2 — schedule explorer harnesses (C04, concurrent parts of C06 and C05) over the *scheduled*
//! mount of the repository (`std::sync` -> `vstd::sync`).  usage: e2 <c04|c06> [--tier T] [--shard I/N] [--replay FILE]
extern crate vsched as inj;

use inj::interface::injector::*;
use std::panic::{catch_unwind, AssertUnwindSafe};
use std::sync::atomic::{AtomicI32, AtomicU32, Ordering};
use std::sync::Mutex as StdMutex;
use vkit::isolate::{self, Outcome};
use vkit::serde_json::{json, Value};
use vstd::sched;

// ---------------------------------------------------------------------------------------------
// shared world

#[inline(never)]
pub fn shared_fn() -> u32 {
    std::hint::black_box(7)
}
#[inline(never)]
fn fake_t0() -> u32 {
    std::hint::black_box(100)
}
#[inline(never)]
fn fake_t1() -> u32 {
    std::hint::black_box(101)
}
#[inline(never)]
fn fake_t2() -> u32 {
    std::hint::black_box(102)
}

#[inline(never)]
pub fn cc(x: u32) -> u32 {
    std::hint::black_box(x).wrapping_add(10)
}

static CRIT: AtomicI32 = AtomicI32::new(0);
static LOG: StdMutex<Vec<String>> = StdMutex::new(Vec::new());
static VIOL: StdMutex<Vec<(String, String)>> = StdMutex::new(Vec::new());

fn log(s: String) {
    LOG.lock().unwrap_or_else(|p| p.into_inner()).push(s);
}
fn viol(key: &str, what: String) {
    VIOL.lock().unwrap_or_else(|p| p.into_inner()).push((key.to_string(), what));
}

fn payload_text(p: &(dyn std::any::Any + Send)) -> String {
    p.downcast_ref::<String>().cloned().or_else(|| p.downcast_ref::<&str>().map(|s| s.to_string())).unwrap_or_else(|| "<non-string>".into())
}

fn install_fake_times(injector: &mut InjectorPP, t: usize) {
    match t {
        0 => injector.when_called(inj::func!(fn(shared_fn)() -> u32)).will_execute(inj::fake!(func_type: fn() -> u32, returns: 100, times: 5)),
        1 => injector.when_called(inj::func!(fn(shared_fn)() -> u32)).will_execute(inj::fake!(func_type: fn() -> u32, returns: 101, times: 5)),
        _ => injector.when_called(inj::func!(fn(shared_fn)() -> u32)).will_execute(inj::fake!(func_type: fn() -> u32, returns: 102, times: 5)),
    }
}

fn install_fake(injector: &mut InjectorPP, t: usize) {
    match t {
        0 => injector.when_called(inj::func!(fn(shared_fn)() -> u32)).will_execute_raw(inj::func!(fn(fake_t0)() -> u32)),
        1 => injector.when_called(inj::func!(fn(shared_fn)() -> u32)).will_execute_raw(inj::func!(fn(fake_t1)() -> u32)),
        _ => injector.when_called(inj::func!(fn(shared_fn)() -> u32)).will_execute_raw(inj::func!(fn(fake_t2)() -> u32)),
    }
}

// a target and a never-faked sibling that are guaranteed to share one code page (one 64-byte block)
std::arch::global_asm!(
    ".section .text.e2pair,\"ax\",@progbits",
    ".balign 64",
    ".globl e2_pair_target",
    "e2_pair_target:",
    "mov eax, 7",
    "ret",
    ".balign 16, 0xcc",
    ".globl e2_pair_sibling",
    "e2_pair_sibling:",
    "mov eax, 9",
    "ret",
    ".balign 64, 0xcc",
    ".text",
);
extern "C" {
    fn e2_pair_target() -> u32;
    fn e2_pair_sibling() -> u32;
}
unsafe extern "C" fn fake_pair() -> u32 {
    std::hint::black_box(100)
}

/// C03 under concurrency: a thread that holds no guard and calls a function that is never faked, on
/// the same code page as a function another thread fakes and un-fakes.  The bystander must get the
/// sibling's own value on every call, under every schedule (in particular between the OS calls of
/// an installation or a restoration).
fn bystander_scenario(exit: Exit, calls: usize, lifetimes: usize) -> Scenario {
    let mut bodies: Vec<Box<dyn FnOnce() + Send>> = Vec::new();
    bodies.push(Box::new(move || {
        for _ in 0..lifetimes {
            let r = catch_unwind(AssertUnwindSafe(|| {
                let mut injector = InjectorPP::new();
                injector
                    .when_called(inj::func!(unsafe{} extern "C" fn(e2_pair_target)() -> u32))
                    .will_execute_raw(inj::func!(unsafe{} extern "C" fn(fake_pair)() -> u32));
                sched::point("h:installed");
                let v = unsafe { e2_pair_target() };
                if v != 100 {
                    viol("injector-holder-sees-foreign-behaviour", format!("the faked function returned {v} to the thread that faked it"));
                }
                if exit == Exit::Panic {
                    panic!("user panic");
                }
                drop(injector);
            }));
            if let Err(p) = r {
                if !payload_text(p.as_ref()).starts_with("user panic") {
                    viol("guard-acquisition-or-use-panicked", format!("unexpected panic: {}", payload_text(p.as_ref())));
                }
            }
        }
    }));
    bodies.push(Box::new(move || {
        for i in 0..calls {
            sched::point("h:bystander-call");
            let v = unsafe { e2_pair_sibling() };
            if v != 9 {
                viol("bystander-sees-foreign-behaviour", format!("call {i} of the never-faked sibling returned {v} (its own value is 9)"));
            }
            log(format!("b{i}"));
        }
    }));
    Scenario { bodies, events: 0, sym: vec![], start_after: vec![] }
}

#[derive(Clone, Copy, PartialEq, Eq, Debug)]
enum Kind {
    Injector,
    Preventer,
    /// injector whose fake carries a call-count expectation that stays unmet: its scope exit panics
    InjectorUnmet,
}
#[derive(Clone, Copy, PartialEq, Eq, Debug)]
enum Exit {
    Scope,
    Panic,
}

fn crit_enter(t: usize) {
    let prev = CRIT.fetch_add(1, Ordering::SeqCst);
    if prev != 0 {
        viol("two-guards-alive", format!("thread {t} obtained its guard while {prev} other guard(s) were alive"));
    }
}
fn crit_leave() {
    CRIT.fetch_sub(1, Ordering::SeqCst);
}

/// One round of a C04 thread: acquire a guard of `kind`, call the shared function twice, release by `exit`.
fn c04_round(t: usize, kind: Kind, exit: Exit) {
    let r = catch_unwind(AssertUnwindSafe(|| {
        match kind {
            Kind::Injector | Kind::InjectorUnmet => {
                let mut injector = InjectorPP::new();
                crit_enter(t);
                if kind == Kind::InjectorUnmet {
                    install_fake_times(&mut injector, t);
                } else {
                    install_fake(&mut injector, t);
                }
                sched::point("h:installed");
                for i in 0..2 {
                    let v = shared_fn();
                    if v != 100 + t as u32 {
                        viol("injector-holder-sees-foreign-behaviour", format!("thread {t} holds an injector with its own fake installed but call {i} returned {v}"));
                    }
                    sched::point("h:called");
                }
                crit_leave();
                if exit == Exit::Panic {
                    panic!("user panic");
                }
                drop(injector);
            }
            Kind::Preventer => {
                let p = InjectorPP::prevent();
                crit_enter(t);
                sched::point("h:prevented");
                for i in 0..2 {
                    let v = shared_fn();
                    if v != 7 {
                        viol("preventer-holder-sees-a-fake", format!("thread {t} holds a preventer but call {i} of the shared function returned {v} (original is 7)"));
                    }
                    sched::point("h:called");
                }
                crit_leave();
                if exit == Exit::Panic {
                    panic!("user panic");
                }
                drop(p);
            }
        }
    }));
    match (r, exit) {
        (Err(p), Exit::Scope) if kind == Kind::InjectorUnmet && payload_text(p.as_ref()).contains("expected to be called") => log(format!("t{t}:{kind:?}:verification-panicked")),
        (Ok(()), Exit::Scope) if kind == Kind::InjectorUnmet => viol("unmet-expectation-not-reported", format!("thread {t}: an injector with an unmet call-count expectation went out of scope silently")),
        (Ok(()), Exit::Scope) => log(format!("t{t}:{kind:?}:ok")),
        (Err(p), Exit::Panic) if payload_text(p.as_ref()).starts_with("user panic") => log(format!("t{t}:{kind:?}:panicked")),
        (Err(p), _) => {
            // whatever else came out was raised by the library: a waiter did not get its turn
            let m = payload_text(p.as_ref());
            // the critical-section counter may be left incremented; repair it for the rest of the run
            viol("guard-acquisition-or-use-panicked", format!("thread {t} ({kind:?}, exit {exit:?}): unexpected panic: {m}"));
        }
        (Ok(()), Exit::Panic) => viol("panic-swallowed", format!("thread {t}: its own panic did not propagate")),
    }
}

struct Scenario {
    bodies: Vec<Box<dyn FnOnce() + Send>>,
    events: usize,
    sym: Vec<usize>,
    /// thread i is not started before this event is set
    start_after: Vec<Option<usize>>,
}

fn c04_scenario(spec: &[Vec<(Kind, Exit)>]) -> Scenario {
    let mut bodies: Vec<Box<dyn FnOnce() + Send>> = Vec::new();
    for (t, rounds) in spec.iter().enumerate() {
        let rounds = rounds.clone();
        bodies.push(Box::new(move || {
            for (k, e) in rounds {
                c04_round(t, k, e);
            }
        }));
    }
    Scenario { bodies, events: 0, sym: vec![], start_after: vec![] }
}

fn kinds() -> Vec<(Kind, Exit)> {
    vec![(Kind::Injector, Exit::Scope), (Kind::Injector, Exit::Panic), (Kind::Preventer, Exit::Scope), (Kind::Preventer, Exit::Panic), (Kind::InjectorUnmet, Exit::Scope)]
}

fn spec_to_json(spec: &[Vec<(Kind, Exit)>]) -> Value {
    json!(spec.iter().map(|r| r.iter().map(|(k, e)| format!("{}{}", match k { Kind::Injector => "I", Kind::Preventer => "P", Kind::InjectorUnmet => "U" }, if *e == Exit::Scope { "s" } else { "p" })).collect::<Vec<_>>()).collect::<Vec<_>>())
}
fn spec_from_json(v: &Value) -> Vec<Vec<(Kind, Exit)>> {
    v.as_array()
        .unwrap()
        .iter()
        .map(|r| {
            r.as_array()
                .unwrap()
                .iter()
                .map(|s| {
                    let s = s.as_str().unwrap();
                    (if s.starts_with('I') { Kind::Injector } else if s.starts_with('U') { Kind::InjectorUnmet } else { Kind::Preventer }, if s.ends_with('s') { Exit::Scope } else { Exit::Panic })
                })
                .collect()
        })
        .collect()
}

// ---------------------------------------------------------------------------------------------
// C06: concurrent callers against one `times: N` fake

static ADMITTED: AtomicU32 = AtomicU32::new(0);
static REJECTED: AtomicU32 = AtomicU32::new(0);
static ODD: AtomicU32 = AtomicU32::new(0);

#[inline(never)]
pub unsafe fn cc_unsafe(x: u32) -> u32 {
    std::hint::black_box(x).wrapping_add(20)
}
#[inline(never)]
pub fn cc_unit(x: u32) {
    std::hint::black_box(x);
}

/// the same budget through other arms of the macro (arm 1: unsafe fn returns+times, arm 2: unit fn times only)
fn install_times_arm(injector: &mut InjectorPP, arm: usize, n: usize) {
    match (arm, n) {
        (1, 1) => injector.when_called(inj::func!(unsafe{} fn(cc_unsafe)(u32) -> u32)).will_execute(inj::fake!(func_type: unsafe fn(x: u32) -> u32, returns: 0xFA, times: 1)),
        (1, _) => injector.when_called(inj::func!(unsafe{} fn(cc_unsafe)(u32) -> u32)).will_execute(inj::fake!(func_type: unsafe fn(x: u32) -> u32, returns: 0xFA, times: 2)),
        (_, 1) => injector.when_called(inj::func!(fn(cc_unit)(u32))).will_execute(inj::fake!(func_type: fn(x: u32) -> (), times: 1)),
        _ => injector.when_called(inj::func!(fn(cc_unit)(u32))).will_execute(inj::fake!(func_type: fn(x: u32) -> (), times: 2)),
    }
}

#[inline(never)]
pub fn ma(x: u32, out: &mut u32) -> u32 {
    *out = std::hint::black_box(x);
    77
}
#[inline(never)]
pub fn mu(x: u32, out: &mut u32) {
    *out = std::hint::black_box(x) + 1;
}
#[inline(never)]
pub unsafe fn ua(x: u32, out: *mut u32) -> u32 {
    *out = std::hint::black_box(x);
    78
}
#[inline(never)]
pub unsafe fn uu(x: u32, out: *mut u32) {
    *out = std::hint::black_box(x) + 2;
}

pub const MATRIX_ARMS: usize = 12;
/// has a `when` option (so a non-matching caller makes sense)
pub fn matrix_arm_has_when(arm: usize) -> bool {
    matches!(arm, 0 | 1 | 4 | 5)
}

/// every `times` arm of the safe / unsafe fn kinds, budget 1
fn install_matrix(injector: &mut InjectorPP, arm: usize) {
    match arm {
        0 => injector.when_called(inj::func!(fn(ma)(u32, &mut u32) -> u32)).will_execute(inj::fake!(func_type: fn(x: u32, out: &mut u32) -> u32, when: x == 1, assign: { *out = 9 }, returns: 0xFA, times: 1)),
        1 => injector.when_called(inj::func!(fn(ma)(u32, &mut u32) -> u32)).will_execute(inj::fake!(func_type: fn(x: u32, out: &mut u32) -> u32, when: x == 1, returns: 0xFA, times: 1)),
        2 => injector.when_called(inj::func!(fn(ma)(u32, &mut u32) -> u32)).will_execute(inj::fake!(func_type: fn(x: u32, out: &mut u32) -> u32, assign: { *out = 9 }, returns: 0xFA, times: 1)),
        3 => injector.when_called(inj::func!(fn(ma)(u32, &mut u32) -> u32)).will_execute(inj::fake!(func_type: fn(x: u32, out: &mut u32) -> u32, returns: 0xFA, times: 1)),
        4 => injector.when_called(inj::func!(fn(mu)(u32, &mut u32))).will_execute(inj::fake!(func_type: fn(x: u32, out: &mut u32) -> (), when: x == 1, assign: { *out = 9 }, times: 1)),
        5 => injector.when_called(inj::func!(fn(mu)(u32, &mut u32))).will_execute(inj::fake!(func_type: fn(x: u32, out: &mut u32) -> (), when: x == 1, times: 1)),
        6 => injector.when_called(inj::func!(fn(mu)(u32, &mut u32))).will_execute(inj::fake!(func_type: fn(x: u32, out: &mut u32) -> (), assign: { *out = 9 }, times: 1)),
        7 => injector.when_called(inj::func!(fn(mu)(u32, &mut u32))).will_execute(inj::fake!(func_type: fn(x: u32, out: &mut u32) -> (), times: 1)),
        8 => injector.when_called(inj::func!(unsafe{} fn(ua)(u32, *mut u32) -> u32)).will_execute(inj::fake!(func_type: unsafe fn(x: u32, out: *mut u32) -> u32, returns: 0xFA, times: 1)),
        9 => injector.when_called(inj::func!(unsafe{} fn(ua)(u32, *mut u32) -> u32)).will_execute(inj::fake!(func_type: unsafe fn(x: u32, out: *mut u32) -> u32, assign: { *out = 9 }, returns: 0xFA, times: 1)),
        10 => injector.when_called(inj::func!(unsafe{} fn(uu)(u32, *mut u32))).will_execute(inj::fake!(func_type: unsafe fn(x: u32, out: *mut u32) -> (), times: 1)),
        _ => injector.when_called(inj::func!(unsafe{} fn(uu)(u32, *mut u32))).will_execute(inj::fake!(func_type: unsafe fn(x: u32, out: *mut u32) -> (), assign: { *out = 9 }, times: 1)),
    }
}

/// call the matrix arm's target; Ok(true) = the fake ran, Ok(false) = the original ran
fn call_matrix(arm: usize, x: u32) -> Result<bool, ()> {
    let r = catch_unwind(move || {
        let mut out = 0u32;
        match arm {
            0..=3 => ma(x, &mut out) == 0xFA,
            4..=7 => {
                mu(x, &mut out);
                out != x + 1
            }
            8 | 9 => unsafe { ua(x, &mut out) == 0xFA },
            _ => unsafe {
                uu(x, &mut out);
                out != x + 2
            },
        }
    });
    r.map_err(|_| ())
}

/// installer + callers for one arm of the matrix; `args[i]` is the argument of caller i (1 matches)
fn c06m_scenario(arm: usize, args: &[u32]) -> Scenario {
    let matching = args.iter().filter(|a| **a == 1 || !matrix_arm_has_when(arm)).count();
    let n = 1usize;
    let ncallers = args.len();
    let mut bodies: Vec<Box<dyn FnOnce() + Send>> = Vec::new();
    bodies.push(Box::new(move || {
        let mut injector = InjectorPP::new();
        install_matrix(&mut injector, arm);
        sched::event_set(0);
        for c in 0..ncallers {
            sched::join(1 + c);
        }
        let r = catch_unwind(AssertUnwindSafe(move || drop(injector)));
        if r.is_ok() != (matching == n) {
            viol("scope-exit-verdict", format!("macro arm #{arm}: {matching} matching call(s) with times: {n}: scope exit {}", if r.is_ok() { "was silent" } else { "panicked" }));
        }
    }));
    for (ci, &a) in args.iter().enumerate() {
        bodies.push(Box::new(move || {
            sched::point("h:before-call");
            match call_matrix(arm, a) {
                Ok(true) => {
                    ADMITTED.fetch_add(1, Ordering::SeqCst);
                    log(format!("c{ci}:admitted"));
                }
                Ok(false) => {
                    ODD.fetch_add(1, Ordering::SeqCst);
                    log(format!("c{ci}:original"));
                }
                Err(()) => {
                    REJECTED.fetch_add(1, Ordering::SeqCst);
                    log(format!("c{ci}:rejected"));
                }
            }
        }));
    }
    let mut start_after = vec![Some(0); 1 + ncallers];
    start_after[0] = None;
    Scenario { bodies, events: 1, sym: vec![usize::MAX; 1 + ncallers], start_after }
}

fn install_times(injector: &mut InjectorPP, n: usize) {
    match n {
        0 => injector.when_called(inj::func!(fn(cc)(u32) -> u32)).will_execute(inj::fake!(func_type: fn(x: u32) -> u32, when: x == 1, returns: 0xFA, times: 0)),
        1 => injector.when_called(inj::func!(fn(cc)(u32) -> u32)).will_execute(inj::fake!(func_type: fn(x: u32) -> u32, when: x == 1, returns: 0xFA, times: 1)),
        2 => injector.when_called(inj::func!(fn(cc)(u32) -> u32)).will_execute(inj::fake!(func_type: fn(x: u32) -> u32, when: x == 1, returns: 0xFA, times: 2)),
        3 => injector.when_called(inj::func!(fn(cc)(u32) -> u32)).will_execute(inj::fake!(func_type: fn(x: u32) -> u32, when: x == 1, returns: 0xFA, times: 3)),
        _ => injector.when_called(inj::func!(fn(cc)(u32) -> u32)).will_execute(inj::fake!(func_type: fn(x: u32) -> u32, when: x == 1, returns: 0xFA, times: 4)),
    }
}

fn numbers_in(s: &str) -> Vec<u64> {
    let mut v = Vec::new();
    let mut cur = String::new();
    for ch in s.chars().chain(std::iter::once(' ')) {
        if ch.is_ascii_digit() {
            cur.push(ch);
        } else if !cur.is_empty() {
            if let Ok(n) = cur.parse() {
                v.push(n);
            }
            cur.clear();
        }
    }
    v
}

/// thread 0 installs and, after all callers are done, lets the injector go; threads 1.. call.
fn c06_scenario(n: usize, calls: &[usize], symmetric: bool, arm: usize) -> Scenario {
    let k: usize = calls.iter().sum();
    let ncallers = calls.len();
    let mut bodies: Vec<Box<dyn FnOnce() + Send>> = Vec::new();
    bodies.push(Box::new(move || {
        let mut injector = InjectorPP::new();
        if arm == 0 {
            install_times(&mut injector, n);
        } else {
            install_times_arm(&mut injector, arm, n);
        }
        sched::event_set(0);
        for c in 0..ncallers {
            sched::join(1 + c);
        }
        let r = catch_unwind(AssertUnwindSafe(move || drop(injector)));
        match r {
            Ok(()) => {
                log("exit:ok".into());
                if k != n {
                    viol("scope-exit-silent-although-count-differs", format!("{k} matching call(s) arrived with times: {n}, yet scope exit did not panic"));
                }
            }
            Err(p) => {
                let m = payload_text(p.as_ref());
                log("exit:panic".into());
                if k == n {
                    viol("scope-exit-panics-although-count-matches", format!("{k} matching call(s) with times: {n}, yet scope exit panicked: {m}"));
                } else {
                    let nums = numbers_in(&m);
                    if !(nums.contains(&(n as u64)) && nums.contains(&(k as u64))) {
                        viol("scope-exit-message-numbers", format!("{k} matching call(s) with times: {n}; the scope-exit panic does not name both numbers: {m}"));
                    }
                }
            }
        }
    }));
    for (ci, &c) in calls.iter().enumerate() {
        bodies.push(Box::new(move || {
            for _ in 0..c {
                sched::point("h:before-call");
                let r = catch_unwind(move || match arm {
                    0 => cc(1),
                    1 => unsafe { cc_unsafe(1) },
                    _ => {
                        cc_unit(1);
                        0xFA
                    }
                });
                match r {
                    Ok(0xFA) => {
                        ADMITTED.fetch_add(1, Ordering::SeqCst);
                        log(format!("c{ci}:admitted"));
                    }
                    Ok(_) => {
                        ODD.fetch_add(1, Ordering::SeqCst);
                        log(format!("c{ci}:other"));
                    }
                    Err(_) => {
                        REJECTED.fetch_add(1, Ordering::SeqCst);
                        log(format!("c{ci}:rejected"));
                    }
                }
            }
        }));
    }
    let mut sym = vec![usize::MAX; 1 + ncallers];
    if symmetric {
        for s in sym.iter_mut().skip(1) {
            *s = 1;
        }
    }
    let mut start_after = vec![Some(0); 1 + ncallers];
    start_after[0] = None;
    Scenario { bodies, events: 1, sym, start_after }
}

// ---------------------------------------------------------------------------------------------
// running one case: explore all schedules up to a preemption bound

fn target_image(f: u64) -> Vec<u8> {
    unsafe { vkit::arena::read(f, 32) }
}

fn run_case(c: &Value) -> Value {
    let check = c["check"].as_str().unwrap().to_string();
    let bound = c["bound"].as_u64().unwrap() as usize;
    let cap = c["cap"].as_u64().unwrap_or(0);
    let replay: Option<Vec<usize>> = c.get("schedule").and_then(|s| s.as_array()).map(|a| a.iter().map(|x| x.as_u64().unwrap() as usize).collect());
    let pre_shared = target_image(shared_fn as *const () as u64);
    let pre_cc = target_image(cc as *const () as u64);
    let outcomes: std::cell::RefCell<std::collections::BTreeSet<String>> = Default::default();
    let first_viol: std::cell::RefCell<Option<Value>> = std::cell::RefCell::new(None);
    let states: std::cell::RefCell<std::collections::HashSet<u64>> = Default::default();
    // determinism: a sample of the explored schedules is replayed afterwards and must be observed identically
    let recheck: std::cell::RefCell<Vec<(Vec<usize>, String)>> = Default::default();
    let judged = std::cell::Cell::new(0u64);
    let mk = || -> Scenario {
        if check == "c04" {
            c04_scenario(&spec_from_json(&c["spec"]))
        } else if check == "c03b" {
            bystander_scenario(if c["exit"].as_str() == Some("p") { Exit::Panic } else { Exit::Scope }, c["calls"].as_u64().unwrap() as usize, c["lifetimes"].as_u64().unwrap() as usize)
        } else if check == "c06m" {
            let args: Vec<u32> = c["args"].as_array().unwrap().iter().map(|x| x.as_u64().unwrap() as u32).collect();
            c06m_scenario(c["arm"].as_u64().unwrap() as usize, &args)
        } else {
            let calls: Vec<usize> = c["calls"].as_array().unwrap().iter().map(|x| x.as_u64().unwrap() as usize).collect();
            c06_scenario(c["n"].as_u64().unwrap() as usize, &calls, c["symmetric"].as_bool().unwrap_or(false), c["arm"].as_u64().unwrap_or(0) as usize)
        }
    };
    let mut run = |prefix: &[usize]| -> sched::Execution {
        isolate::set_note(vkit::serde_json::to_string(&json!({"prefix": prefix})).unwrap().as_bytes());
        LOG.lock().unwrap_or_else(|p| p.into_inner()).clear();
        VIOL.lock().unwrap_or_else(|p| p.into_inner()).clear();
        CRIT.store(0, Ordering::SeqCst);
        ADMITTED.store(0, Ordering::SeqCst);
        REJECTED.store(0, Ordering::SeqCst);
        ODD.store(0, Ordering::SeqCst);
        let s = mk();
        sched::execute(s.bodies, prefix, s.events, &s.sym, &s.start_after)
    };
    let mut judge = |ex: &sched::Execution, schedule: &[usize]| -> bool {
        let mut v: Vec<(String, String)> = VIOL.lock().unwrap_or_else(|p| p.into_inner()).clone();
        if ex.deadlock {
            v.push(("deadlock".into(), format!("no thread can run although threads {:?} have not finished (a waiter never gets its turn)", ex.unfinished)));
        }
        if !ex.deadlock {
            if target_image(shared_fn as *const () as u64) != pre_shared || target_image(cc as *const () as u64) != pre_cc {
                v.push(("not-restored-after-all-threads-finished".into(), "the function's bytes differ from the pre-image after every thread has finished".into()));
            }
            if check == "c06m" {
                let arm = c["arm"].as_u64().unwrap() as usize;
                let args: Vec<u32> = c["args"].as_array().unwrap().iter().map(|x| x.as_u64().unwrap() as u32).collect();
                let matching = args.iter().filter(|a| **a == 1 || !matrix_arm_has_when(arm)).count() as u32;
                let (a, r, o) = (ADMITTED.load(Ordering::SeqCst), REJECTED.load(Ordering::SeqCst), ODD.load(Ordering::SeqCst));
                let want_a = matching.min(1);
                if a != want_a || o != 0 || a + r != args.len() as u32 {
                    v.push(("admission-count".into(), format!("macro arm #{arm}, caller arguments {args:?} against times: 1: {a} admitted, {r} rejected, {o} ran the original (expected {want_a} admitted, {} rejected)", args.len() as u32 - want_a)));
                }
            }
            if check == "c06" {
                let n = c["n"].as_u64().unwrap() as u32;
                let k: u32 = c["calls"].as_array().unwrap().iter().map(|x| x.as_u64().unwrap() as u32).sum();
                let (a, r, o) = (ADMITTED.load(Ordering::SeqCst), REJECTED.load(Ordering::SeqCst), ODD.load(Ordering::SeqCst));
                if a != k.min(n) || r != k - k.min(n) || o != 0 {
                    v.push(("admission-count".into(), format!("{k} concurrent matching call(s) against times: {n}: {a} admitted, {r} rejected, {o} ran something else (expected {} admitted)", k.min(n))));
                }
            }
        }
        // state fingerprint: position in the trace is implicit; use (log so far, chosen prefix hash)
        let logtxt = LOG.lock().unwrap_or_else(|p| p.into_inner()).join(",");
        outcomes.borrow_mut().insert(logtxt.clone());
        judged.set(judged.get() + 1);
        if judged.get() % 97 == 1 && recheck.borrow().len() < 40 {
            recheck.borrow_mut().push((schedule.to_vec(), logtxt.clone()));
        }
        let mut h = 0xcbf29ce484222325u64;
        for (i, s) in ex.trace.iter().enumerate() {
            // a state = (who is where) approximated by (step index, enabled set, chosen)
            h ^= (i as u64) << 32 | (s.chosen as u64) << 8 | s.enabled.len() as u64;
            h = h.wrapping_mul(0x100000001b3);
            states.borrow_mut().insert(h);
        }
        if let Some((key, what)) = v.into_iter().next() {
            *first_viol.borrow_mut() = Some(json!({"key": key, "what": what, "schedule": schedule, "labels": ex.trace.iter().map(|s| format!("{}:{}", s.chosen, s.label)).collect::<Vec<_>>()}));
            return false;
        }
        true
    };
    // warm-up: the first execution in a process may differ from all later ones (lazily built globals,
    // a process-lifetime cache in the code under test); it is judged like any other execution, but it is
    // not one of the executions sampled for the determinism re-check, and the search starts after it
    {
        let ex = run(&[]);
        let sched_v: Vec<usize> = ex.trace.iter().map(|s| s.chosen).collect();
        judge(&ex, &sched_v);
        recheck.borrow_mut().clear();
    }
    let stats = if first_viol.borrow().is_some() {
        sched::ExploreStats { schedules: 1, steps: 0, max_preemptions_used: 0, blocked_lock_schedules: 0, capped: false }
    } else if let Some(p) = replay {
        let ex = run(&p);
        let sched_v: Vec<usize> = ex.trace.iter().map(|s| s.chosen).collect();
        judge(&ex, &sched_v);
        sched::ExploreStats { schedules: 1, steps: ex.trace.len() as u64, max_preemptions_used: 0, blocked_lock_schedules: ex.blocked_lock_seen as u64, capped: false }
    } else {
        // iterative preemption bounding: 0, 1, .., bound (the first counterexample has the fewest preemptions)
        let mut total = sched::ExploreStats { schedules: 0, steps: 0, max_preemptions_used: 0, blocked_lock_schedules: 0, capped: false };
        for b in 0..=bound {
            if b < bound && bound > 1 && b > 0 {
                continue; // 0, then the full bound (intermediate bounds are subsumed; 0 gives the shortest counterexample first)
            }
            // wall-clock budget per scenario (a tree whose synchronisation makes the schedule space much
            // larger than the pinned tree's must still end; the scenario is then reported as capped)
            let per_case = std::time::Duration::from_secs(if THOROUGH.load(Ordering::Relaxed) { 600 } else { 12 });
            let shard_deadline = SHARD_DEADLINE.get().copied();
            let mut deadline = std::time::Instant::now() + per_case;
            if let Some(sd) = shard_deadline {
                if sd < deadline {
                    deadline = sd;
                }
            }
            let st = sched::explore_until(b, cap, Some(deadline), &mut run, &mut judge);
            total.schedules += st.schedules;
            total.steps += st.steps;
            total.max_preemptions_used = total.max_preemptions_used.max(st.max_preemptions_used);
            total.blocked_lock_schedules += st.blocked_lock_schedules;
            total.capped |= st.capped;
            if first_viol.borrow().is_some() {
                break;
            }
        }
        total
    };
    let mut nondet = false;
    if first_viol.borrow().is_none() {
        let samples: Vec<(Vec<usize>, String)> = recheck.borrow().clone();
        for (schedule, want_log) in samples {
            let ex = run(&schedule);
            let got: Vec<usize> = ex.trace.iter().map(|s| s.chosen).collect();
            let log_now = LOG.lock().unwrap_or_else(|p| p.into_inner()).join(",");
            if got != schedule || log_now != want_log {
                nondet = true;
                *first_viol.borrow_mut() = Some(json!({"key": "scheduler-fatal", "what": "replaying an explored schedule gave a different execution (nondeterminism the scheduler does not own)", "schedule": schedule, "labels": []}));
                break;
            }
        }
    }
    let _ = nondet;
    json!({
        "schedules": stats.schedules, "steps": stats.steps, "states": states.borrow().len(), "max_preemptions": stats.max_preemptions_used,
        "blocked_lock_schedules": stats.blocked_lock_schedules, "capped": stats.capped,
        "distinct_outcomes": outcomes.borrow().len(), "violation": first_viol.borrow().clone(),
    })
}

fn compositions(k: usize, parts: usize) -> Vec<Vec<usize>> {
    if parts == 1 {
        return vec![vec![k]];
    }
    let mut v = Vec::new();
    for first in 0..=k {
        for mut rest in compositions(k - first, parts - 1) {
            let mut c = vec![first];
            c.append(&mut rest);
            v.push(c);
        }
    }
    v
}

/// end of this shard's wall-clock budget (after it every remaining scenario runs its default schedule only)
static SHARD_DEADLINE: std::sync::OnceLock<std::time::Instant> = std::sync::OnceLock::new();
static THOROUGH: std::sync::atomic::AtomicBool = std::sync::atomic::AtomicBool::new(false);

fn cases(check: &str, tier: &str) -> Vec<Value> {
    let mut v = Vec::new();
    let ks = kinds();
    if check == "c03b" {
        for exit in ["s", "p"] {
            for (calls, lifetimes) in [(1u64, 1u64), (2, 1), (3, 1), (2, 2)] {
                v.push(json!({"check": "c03b", "exit": exit, "calls": calls, "lifetimes": lifetimes, "bound": 64, "cap": if tier == "thorough" { 2_000_000 } else { 100_000 }}));
            }
        }
    } else if check == "c04" {
        // T=2, one round each: unbounded (bound 64 = every schedule)
        for a in &ks {
            for b in &ks {
                v.push(json!({"check": "c04", "spec": spec_to_json(&[vec![*a], vec![*b]]), "bound": 64, "cap": 0}));
            }
        }
        // T=3, one round each: preemption bound 2 (quick) / 3 (thorough)
        for a in &ks {
            for b in &ks {
                for c in &ks {
                    let unmet = [a, b, c].iter().filter(|k| k.0 == Kind::InjectorUnmet).count();
                    if tier != "thorough" && unmet > 1 {
                        continue;
                    }
                    v.push(json!({"check": "c04", "spec": spec_to_json(&[vec![*a], vec![*b], vec![*c]]), "bound": if tier == "thorough" { 3 } else { 2 }, "cap": if tier == "thorough" { 400000 } else { 40000 }}));
                }
            }
        }
        // T=2, two rounds each
        for a in &ks {
            for a2 in &ks {
                for b in &ks {
                    for b2 in &ks {
                        let unmet = [a, a2, b, b2].iter().filter(|k| k.0 == Kind::InjectorUnmet).count();
                        if tier == "thorough" || ((a == a2 || b == b2) && unmet == 0) || (unmet == 1 && a == b && a2 == b2) {
                            v.push(json!({"check": "c04", "spec": spec_to_json(&[vec![*a, *a2], vec![*b, *b2]]), "bound": if tier == "thorough" { 3 } else { 2 }, "cap": if tier == "thorough" { 200000 } else { 20000 }}));
                        }
                    }
                }
            }
        }
    } else {
        let thorough = tier == "thorough";
        for n in 0..=if thorough { 3 } else { 2 } {
            for k in 0..=n + 2 {
                for t in 1..=3usize {
                    for calls in compositions(k, t) {
                        if calls.iter().any(|c| *c == 0) && t > 1 {
                            continue; // a caller without calls is a smaller T
                        }
                        // every schedule for one or two callers; preemption-bounded beyond
                        let (bound, cap) = match t {
                            1 | 2 => (64, 200_000u64),
                            3 => (if thorough { 4 } else { 2 }, if thorough { 60_000 } else { 8_000 }),
                            _ => (3, 200_000),
                        };
                        v.push(json!({"check": "c06", "n": n, "calls": calls, "symmetric": false, "bound": bound, "cap": cap}));
                    }
                }
            }
        }
        // the arm matrix: every `times` arm of the safe / unsafe fn kinds, two or three concurrent callers,
        // including a non-matching caller for the arms with `when` (every schedule)
        for arm in 0..MATRIX_ARMS {
            v.push(json!({"check": "c06m", "arm": arm, "args": [1, 1], "bound": 64, "cap": 100_000}));
            if matrix_arm_has_when(arm) {
                v.push(json!({"check": "c06m", "arm": arm, "args": [2, 1], "bound": 64, "cap": 100_000}));
                v.push(json!({"check": "c06m", "arm": arm, "args": [2, 2, 1], "bound": if thorough { 64 } else { 3 }, "cap": 100_000}));
            }
        }
        // the same budget through two other arms of the macro (every schedule, two callers)
        for arm in [1u64, 2] {
            for (n, calls) in [(1u64, vec![1, 1]), (2, vec![1, 2]), (1, vec![2])] {
                v.push(json!({"check": "c06", "n": n, "calls": calls, "symmetric": false, "arm": arm, "bound": 64, "cap": 100_000}));
            }
        }
        // many identical single-call threads (symmetry reduction)
        for t in [8usize, 16] {
            for n in [0usize, 1, 2, 4] {
                if thorough || n == 1 {
                    v.push(json!({"check": "c06", "n": n, "calls": vec![1; t], "symmetric": true, "bound": if thorough { 2 } else if t == 8 { 2 } else { 1 }, "cap": if thorough { 60_000 } else { 8_000 }}));
                }
            }
        }
    }
    v
}

/// Free-running cross-check (not part of the exhaustive verdict): the same thread bodies on plain OS
/// threads under the real scheduler, no controlled scheduling.  Looks for failures of the same
/// oracles and gives a race detector (helgrind) something to watch.
fn free_run(iters: usize) -> Value {
    let pre_shared = target_image(shared_fn as *const () as u64);
    let pre_cc = target_image(cc as *const () as u64);
    let ks = kinds();
    let mut runs = 0u64;
    let mut viols: Vec<Value> = Vec::new();
    for it in 0..iters {
        // C04: three threads, kinds rotating through all combinations
        let spec: Vec<Vec<(Kind, Exit)>> = (0..3).map(|t| vec![ks[(it + t * 2) % ks.len()], ks[(it / 5 + t) % ks.len()]]).collect();
        VIOL.lock().unwrap_or_else(|p| p.into_inner()).clear();
        CRIT.store(0, Ordering::SeqCst);
        let hs: Vec<_> = spec
            .iter()
            .cloned()
            .enumerate()
            .map(|(t, rounds)| {
                std::thread::spawn(move || {
                    for (k, e) in rounds {
                        c04_round(t, k, e);
                    }
                })
            })
            .collect();
        for h in hs {
            let _ = h.join();
        }
        runs += 1;
        let mut v: Vec<(String, String)> = VIOL.lock().unwrap_or_else(|p| p.into_inner()).clone();
        if target_image(shared_fn as *const () as u64) != pre_shared {
            v.push(("not-restored-after-all-threads-finished".into(), "bytes differ after all threads finished".into()));
        }
        // C06: the main thread installs, callers call concurrently, the main thread verifies
        let n = it % 3;
        let callers = 2 + it % 3;
        ADMITTED.store(0, Ordering::SeqCst);
        REJECTED.store(0, Ordering::SeqCst);
        ODD.store(0, Ordering::SeqCst);
        let r = catch_unwind(AssertUnwindSafe(|| {
            let mut injector = InjectorPP::new();
            install_times(&mut injector, n);
            let hs: Vec<_> = (0..callers)
                .map(|_| {
                    std::thread::spawn(|| match catch_unwind(|| cc(1)) {
                        Ok(0xFA) => {
                            ADMITTED.fetch_add(1, Ordering::SeqCst);
                        }
                        Ok(_) => {
                            ODD.fetch_add(1, Ordering::SeqCst);
                        }
                        Err(_) => {
                            REJECTED.fetch_add(1, Ordering::SeqCst);
                        }
                    })
                })
                .collect();
            for h in hs {
                let _ = h.join();
            }
            drop(injector);
        }));
        runs += 1;
        let (a, rj, o) = (ADMITTED.load(Ordering::SeqCst) as usize, REJECTED.load(Ordering::SeqCst) as usize, ODD.load(Ordering::SeqCst));
        if a != callers.min(n) || rj != callers - callers.min(n) || o != 0 {
            v.push(("admission-count".into(), format!("free run: {callers} concurrent calls against times: {n}: {a} admitted, {rj} rejected, {o} other")));
        }
        if r.is_ok() != (callers == n) {
            v.push(("scope-exit-verdict".into(), format!("free run: {callers} calls with times: {n}: scope exit {}", if r.is_ok() { "silent" } else { "panicked" })));
        }
        if target_image(cc as *const () as u64) != pre_cc {
            v.push(("not-restored-after-all-threads-finished".into(), "bytes of the counted function differ after the run".into()));
        }
        for (k, w) in v {
            viols.push(json!({"key": k, "what": w, "iteration": it}));
        }
        if !viols.is_empty() {
            break;
        }
    }
    json!({"engine": "e2", "check": "free", "runs": runs, "violations": viols})
}

fn main() {
    if std::env::args().nth(1).as_deref() == Some("free") {
        isolate::quiet_panics();
        let iters: usize = std::env::args().nth(2).and_then(|s| s.parse().ok()).unwrap_or(200);
        println!("{}", vkit::serde_json::to_string(&free_run(iters)).unwrap());
        return;
    }
    vkit::proc::ensure_no_aslr();
    isolate::quiet_panics();
    let mut args = std::env::args().skip(1);
    let check = args.next().unwrap_or_default();
    let mut tier = "quick".to_string();
    let mut shard = (0usize, 1usize);
    let mut replay: Option<String> = None;
    while let Some(x) = args.next() {
        match x.as_str() {
            "--tier" => tier = args.next().unwrap(),
            "--shard" => {
                let s = args.next().unwrap();
                let (i, n) = s.split_once('/').unwrap();
                shard = (i.parse().unwrap(), n.parse().unwrap());
            }
            "--replay" => replay = args.next(),
            _ => {}
        }
    }
    // OS calls of the crate are scheduling points too
    inj::vaccess::venv::set_sched_hook(Some(|label| sched::point(label)));
    if replay.is_some() {
        sched::LENIENT_REPLAY.store(true, Ordering::SeqCst);
    }
    let all = if let Some(f) = &replay {
        let v: Value = vkit::serde_json::from_str(&std::fs::read_to_string(f).expect("replay file")).expect("json");
        vec![v["case"].clone(), v["case"].clone()]
    } else {
        cases(&check, &tier)
    };
    let mine: Vec<&Value> = if replay.is_some() { all.iter().collect() } else { all.iter().enumerate().filter(|(i, _)| i % shard.1 == shard.0).map(|(_, c)| c).collect() };
    THOROUGH.store(tier == "thorough", Ordering::Relaxed);
    if replay.is_none() {
        let _ = SHARD_DEADLINE.set(std::time::Instant::now() + std::time::Duration::from_secs(if tier == "thorough" { 3000 } else { 150 }));
    }
    let outcomes = isolate::run(mine.len(), 1, 7_200_000, |i| (vkit::serde_json::to_vec(&run_case(mine[i])).unwrap(), false));
    let mut tot = json!({"schedules": 0u64, "steps": 0u64, "states": 0u64, "blocked_lock_schedules": 0u64, "capped_cases": 0u64, "distinct_outcomes_max": 0u64, "max_preemptions": 0u64});
    let mut viols: Vec<Value> = Vec::new();
    for (i, o) in outcomes.iter().enumerate() {
        match o {
            Outcome::Done(b) => {
                let v: Value = vkit::serde_json::from_slice(b).unwrap();
                for k in ["schedules", "steps", "states", "blocked_lock_schedules"] {
                    tot[k] = json!(tot[k].as_u64().unwrap() + v[k].as_u64().unwrap());
                }
                if v["capped"].as_bool().unwrap() {
                    tot["capped_cases"] = json!(tot["capped_cases"].as_u64().unwrap() + 1);
                }
                tot["distinct_outcomes_max"] = json!(tot["distinct_outcomes_max"].as_u64().unwrap().max(v["distinct_outcomes"].as_u64().unwrap()));
                tot["max_preemptions"] = json!(tot["max_preemptions"].as_u64().unwrap().max(v["max_preemptions"].as_u64().unwrap()));
                if std::env::var_os("E2_CASE_STATS").is_some() {
                    eprintln!("case {} schedules {} capped {}", mine[i], v["schedules"], v["capped"]);
                }
                if !v["violation"].is_null() {
                    let mut case = mine[i].clone();
                    case["schedule"] = v["violation"]["schedule"].clone();
                    viols.push(json!({"key": v["violation"]["key"], "what": v["violation"]["what"], "labels": v["violation"]["labels"], "case": case}));
                }
            }
            Outcome::Signal(sig, _) | Outcome::Exit(sig, _) => {
                let note = isolate::crash_note(i).and_then(|n| vkit::serde_json::from_slice::<Value>(&n).ok()).unwrap_or(json!({}));
                let mut case = mine[i].clone();
                case["schedule"] = note["prefix"].clone();
                let (key, what) = if *sig == 70 {
                    ("scheduler-fatal".to_string(), "the scheduler stopped: wrapper state and reality diverged (machinery)".to_string())
                } else {
                    (format!("process-died-{sig}"), format!("the process died (signal/status {sig}) while a schedule was executed: a thread ran code that is not there any more, or a second panic aborted the process"))
                };
                viols.push(json!({"key": key, "what": what, "labels": [], "case": case}));
            }
            Outcome::Timeout(_) => {
                let mut case = mine[i].clone();
                case["schedule"] = json!([]);
                viols.push(json!({"key": "hang", "what": "a scenario made no progress for two hours", "labels": [], "case": case}));
            }
        }
    }
    let samples: Vec<&Value> = mine.iter().step_by((mine.len() / 4).max(1)).take(4).copied().collect();
    let out = json!({"engine": "e2", "check": check, "tier": tier, "cases": mine.len(), "total_cases": all.len(), "totals": tot, "violations": viols, "samples": samples});
    println!("{}", vkit::serde_json::to_string(&out).unwrap());
}
