//! `vstd`: what the *scheduled* mount of the repository sees in place of `std::sync`.
//!
//! `vstd::sync` is `std::sync` re-exported, except `Mutex`/`MutexGuard` and the integer atomics,
//! which are thin wrappers around the real std primitives (real poisoning, real unwinding) that
//! announce a scheduling point to [`sched`] before every operation.  Threads that are not under
//! the scheduler's control (the explorer itself, set-up code) pass straight through.
pub mod sched;
pub mod sync;
