//! `vsched`: a CHESS-style controlled scheduler over real OS threads.
//!
//! One controlled thread runs at a time (baton passing on un-instrumented std primitives).  A
//! thread gives the scheduler a chance to switch at every *scheduling point*; the sequence of
//! choices is the schedule.  The explorer (see `explore`) enumerates schedules depth-first with
//! iterative preemption bounding: switching away from a thread that could have continued costs
//! one preemption.
use std::cell::Cell;
use std::collections::HashMap;
use std::sync::{Condvar, Mutex};

#[derive(Clone, Debug, PartialEq, Eq)]
enum Want {
    /// can run
    Ready,
    /// waits for the mutex with this key to have no holder
    Lock(usize),
    /// waits for an event to be set
    Event(usize),
    /// waits for a thread to finish
    Join(usize),
    /// waits on condition variable `key` for a notification later than sequence number `seq`
    Cond(usize, u64),
    /// spinning: has read the same value from the atomic at `addr` twice in a row; not offered until
    /// that atomic is written (or nobody else can run)
    AtomicChange(usize, u64),
    Finished,
    NotStarted,
    /// not started, and not to be started before this event is set
    NotStartedUntil(usize),
}

#[derive(Clone, Debug)]
pub struct Step {
    /// thread at the scheduling point (usize::MAX: start of the execution)
    pub at: usize,
    pub label: &'static str,
    pub enabled: Vec<usize>,
    pub chosen: usize,
    /// `at` could have continued
    pub at_enabled: bool,
}

struct State {
    current: usize,
    want: Vec<Want>,
    holders: HashMap<usize, usize>,
    /// notifications seen per condition variable
    cond_seq: HashMap<usize, u64>,
    /// writes seen per instrumented atomic
    write_seq: HashMap<usize, u64>,
    /// per thread: the last instrumented read (address, value, position in the trace)
    last_read: Vec<Option<(usize, u64, usize)>>,
    events: Vec<bool>,
    prefix: Vec<usize>,
    trace: Vec<Step>,
    active: bool,
    deadlock: bool,
    registered: usize,
    blocked_lock_seen: bool,
    /// identical-body symmetry: threads in the same class that have not started are interchangeable
    sym_class: Vec<usize>,
    /// OS thread handles for targeted wake-ups (index = controlled thread id; last = the explorer)
    handles: Vec<Option<std::thread::Thread>>,
}

static CTL: Mutex<Option<State>> = Mutex::new(None);
/// replay of a recorded schedule on a possibly different tree: a prescribed choice that is not
/// enabled there falls back to the default policy instead of stopping the process
pub static LENIENT_REPLAY: std::sync::atomic::AtomicBool = std::sync::atomic::AtomicBool::new(false);
static CV: Condvar = Condvar::new();
const SPIN_WINDOW: usize = 48;
const MAX_STEPS: usize = 400_000;

fn wake(st: &State, t: usize) {
    if let Some(Some(h)) = st.handles.get(t) {
        h.unpark();
    }
}

fn wake_explorer(st: &State) {
    if let Some(Some(h)) = st.handles.last() {
        h.unpark();
    }
}
const NONE: usize = usize::MAX;

thread_local! {
    static TID: Cell<usize> = const { Cell::new(NONE) };
}

pub fn controlled() -> bool {
    TID.with(|t| t.get() != NONE)
}

pub fn tid() -> usize {
    TID.with(|t| t.get())
}

pub fn fatal(msg: &str) -> ! {
    eprintln!("vsched: FATAL: {msg}");
    std::process::exit(70);
}

fn enabled_of(st: &State) -> Vec<usize> {
    let mut v = Vec::new();
    let mut seen_unstarted_class: Vec<usize> = Vec::new();
    for (i, w) in st.want.iter().enumerate() {
        let ok = match w {
            Want::Ready => true,
            Want::NotStartedUntil(e) if !st.events[*e] => false,
            Want::NotStarted | Want::NotStartedUntil(_) => {
                // symmetry reduction: among not-yet-started threads of one class only the lowest id
                let c = st.sym_class[i];
                if c != NONE && seen_unstarted_class.contains(&c) {
                    false
                } else {
                    if c != NONE {
                        seen_unstarted_class.push(c);
                    }
                    true
                }
            }
            Want::Lock(k) => !st.holders.contains_key(k),
            Want::Event(e) => st.events[*e],
            Want::Join(t) => st.want[*t] == Want::Finished,
            Want::Cond(k, seq) => st.cond_seq.get(k).copied().unwrap_or(0) > *seq,
            Want::AtomicChange(a, seq) => st.write_seq.get(a).copied().unwrap_or(0) > *seq,
            Want::Finished => false,
        };
        if ok {
            v.push(i);
        }
    }
    if v.is_empty() {
        // nobody can make progress: the spinners get to look again (a real livelock ends at MAX_STEPS)
        for (i, w) in st.want.iter().enumerate() {
            if matches!(w, Want::AtomicChange(..)) {
                v.push(i);
            }
        }
    }
    v
}

/// Pick the next thread (called with the state locked by the thread `at`).
fn choose(st: &mut State, at: usize, label: &'static str) {
    let enabled = enabled_of(st);
    // a thread that has to wait for another one (on a mutex or on a condition variable): the
    // executions in which the guard protocol really makes somebody wait
    if let Some(Want::Lock(_) | Want::Cond(..) | Want::AtomicChange(..)) = st.want.get(at) {
        if !enabled.contains(&at) {
            st.blocked_lock_seen = true;
        }
    }
    if enabled.is_empty() {
        if st.want.iter().all(|w| *w == Want::Finished) {
            st.current = NONE;
            st.active = false;
        } else {
            st.deadlock = true;
            st.current = NONE;
            st.active = false;
        }
        wake_explorer(st);
        return;
    }
    let pos = st.trace.len();
    // Waiting made visible: a thread that has just executed SPIN_WINDOW consecutive atomic operations
    // without anybody else running is taken to be spinning on a flag (a hand-written spin lock, a
    // retry-until-success loop).  Like a thread that called `yield`, it is not offered at this
    // point if another thread can run, and the switch away from it is not a preemption.  Without
    // this a stateless explorer would unroll the loop forever under its default policy.
    let mut enabled = enabled;
    if at != NONE && enabled.len() > 1 && enabled.contains(&at) && label.contains("Atomic") && pos >= SPIN_WINDOW {
        let spinning = st.trace[pos - SPIN_WINDOW..].iter().all(|s| s.at == at && s.chosen == at && s.label.contains("Atomic"));
        if spinning {
            enabled.retain(|t| *t != at);
        }
    }
    if pos > MAX_STEPS {
        // only spinners left, forever: livelock (reported like a deadlock)
        st.deadlock = true;
        st.current = NONE;
        st.active = false;
        wake_explorer(st);
        return;
    }
    let at_enabled = at != NONE && enabled.contains(&at);
    let chosen = if pos < st.prefix.len() {
        let c = st.prefix[pos];
        if !enabled.contains(&c) {
            if LENIENT_REPLAY.load(std::sync::atomic::Ordering::Relaxed) {
                if at_enabled { at } else { enabled[0] }
            } else {
                fatal(&format!("replay divergence at step {pos}: prescribed thread {c} not enabled (enabled {enabled:?})"))
            }
        } else {
            c
        }
    } else if at_enabled {
        at
    } else {
        enabled[0]
    };
    st.trace.push(Step { at, label, enabled, chosen, at_enabled });
    st.current = chosen;
    if chosen != at {
        wake(st, chosen);
    }
}

fn wait_for_baton(me: usize) {
    loop {
        {
            let mut g = CTL.lock().unwrap_or_else(|p| p.into_inner());
            let st = g.as_mut().expect("scheduler state");
            if st.current == me {
                // take what we were waiting for
                if let Want::Lock(k) = st.want[me].clone() {
                    st.holders.insert(k, me);
                }
                st.want[me] = Want::Ready;
                return;
            }
            if st.deadlock {
                // never returns control to the library code: the explorer reports the deadlock
                drop(g);
                loop {
                    std::thread::park();
                }
            }
        }
        std::thread::park();
    }
}

fn point_with(want: Want, label: &'static str) {
    let me = tid();
    if me == NONE {
        return;
    }
    {
        let mut g = CTL.lock().unwrap_or_else(|p| p.into_inner());
        let st = g.as_mut().expect("scheduler state");
        st.want[me] = want;
        choose(st, me, label);
    }
    wait_for_baton(me);
}

/// A plain scheduling point.
pub fn point(label: &'static str) {
    point_with(Want::Ready, label)
}

/// Block until the mutex `key` has no holder, then become its holder.
pub fn acquire(key: usize) {
    point_with(Want::Lock(key), "mutex.lock")
}

pub fn try_acquire(key: usize) -> bool {
    point("mutex.try_lock");
    let mut g = CTL.lock().unwrap_or_else(|p| p.into_inner());
    let st = g.as_mut().expect("scheduler state");
    if st.holders.contains_key(&key) {
        false
    } else {
        st.holders.insert(key, tid());
        true
    }
}

/// The holder has really released the mutex; make that visible and offer a switch.
pub fn release(key: usize) {
    {
        let mut g = CTL.lock().unwrap_or_else(|p| p.into_inner());
        let st = g.as_mut().expect("scheduler state");
        st.holders.remove(&key);
    }
    point("mutex.unlock");
}

pub fn holder_of_any() -> Vec<(usize, usize)> {
    let g = CTL.lock().unwrap_or_else(|p| p.into_inner());
    g.as_ref().map(|st| st.holders.iter().map(|(k, v)| (*k, *v)).collect()).unwrap_or_default()
}

/// Harness-level events (set once, wait until set).
pub fn event_set(e: usize) {
    {
        let mut g = CTL.lock().unwrap_or_else(|p| p.into_inner());
        let st = g.as_mut().expect("scheduler state");
        st.events[e] = true;
    }
    point("event.set");
}

pub fn event_wait(e: usize) {
    point_with(Want::Event(e), "event.wait")
}

pub fn join(t: usize) {
    point_with(Want::Join(t), "join")
}

/// Current notification count of a condition variable (read while the caller still holds the mutex).
pub fn cond_seq(key: usize) -> u64 {
    let g = CTL.lock().unwrap_or_else(|p| p.into_inner());
    g.as_ref().and_then(|st| st.cond_seq.get(&key).copied()).unwrap_or(0)
}

/// Block until the condition variable has been notified after `seq`.
pub fn cond_block(key: usize, seq: u64) {
    point_with(Want::Cond(key, seq), "condvar.wait")
}

/// An instrumented atomic was written.
pub fn note_write(addr: usize) {
    if tid() == NONE {
        return;
    }
    let mut g = CTL.lock().unwrap_or_else(|p| p.into_inner());
    if let Some(st) = g.as_mut() {
        *st.write_seq.entry(addr).or_insert(0) += 1;
        let me = tid();
        if st.last_read.len() <= me {
            st.last_read.resize(me + 1, None);
        }
        st.last_read[me] = None;
    }
}

/// An instrumented atomic was read (a load, or a compare-exchange that failed) and gave `value`.
/// Reading the same value from the same atomic twice in a row, with nobody else running in
/// between, is a spin-wait: the thread is set aside until that atomic is written.
pub fn note_read(addr: usize, value: u64) {
    let me = tid();
    if me == NONE {
        return;
    }
    let wait_seq = {
        let mut g = CTL.lock().unwrap_or_else(|p| p.into_inner());
        let st = match g.as_mut() {
            Some(st) => st,
            None => return,
        };
        if st.last_read.len() <= me {
            st.last_read.resize(me + 1, None);
        }
        let pos = st.trace.len();
        let again = match st.last_read[me] {
            Some((a, v, p)) => a == addr && v == value && st.trace[p.min(pos)..].iter().all(|s| s.chosen == me),
            None => false,
        };
        st.last_read[me] = Some((addr, value, pos));
        if again { Some(st.write_seq.get(&addr).copied().unwrap_or(0)) } else { None }
    };
    if let Some(seq) = wait_seq {
        point_with(Want::AtomicChange(addr, seq), "spin.wait");
    }
}

pub fn cond_notify(key: usize) {
    {
        let mut g = CTL.lock().unwrap_or_else(|p| p.into_inner());
        let st = g.as_mut().expect("scheduler state");
        *st.cond_seq.entry(key).or_insert(0) += 1;
    }
    point("condvar.notify");
}

// ---------------------------------------------------------------------------------------------
// reset registry: statics of the code under test must start every execution like a fresh process

type ResetFn = fn(usize);
type ResetFn2 = fn(usize, usize);
static RESETS: Mutex<Vec<(usize, ResetFn, usize)>> = Mutex::new(Vec::new());
static RESETS2: Mutex<Vec<(usize, ResetFn2, usize)>> = Mutex::new(Vec::new());

pub fn register_reset(key: usize, f: ResetFn, arg: usize) {
    let mut r = RESETS.lock().unwrap_or_else(|p| p.into_inner());
    if !r.iter().any(|x| x.0 == key) {
        r.push((key, f, arg));
    }
}

pub fn register_reset2(key: usize, f: ResetFn2, arg: usize) {
    let mut r = RESETS2.lock().unwrap_or_else(|p| p.into_inner());
    if !r.iter().any(|x| x.0 == key) {
        r.push((key, f, arg));
    }
}

pub fn reset_all() {
    for (_, f, a) in RESETS.lock().unwrap_or_else(|p| p.into_inner()).iter() {
        f(*a);
    }
    for (k, f, a) in RESETS2.lock().unwrap_or_else(|p| p.into_inner()).iter() {
        f(*k, *a);
    }
}

// ---------------------------------------------------------------------------------------------
// one execution

pub struct Execution {
    pub trace: Vec<Step>,
    pub deadlock: bool,
    pub blocked_lock_seen: bool,
    /// threads that did not finish (deadlock)
    pub unfinished: Vec<usize>,
}

/// Run `bodies` (one closure per thread) under the schedule `prefix` (then the default policy:
/// keep running the current thread while it is enabled, else the lowest enabled id).
/// `events`: number of harness events.  `sym_class[i]`: symmetry class of thread i or usize::MAX.
pub fn execute(bodies: Vec<Box<dyn FnOnce() + Send>>, prefix: &[usize], events: usize, sym_class: &[usize], start_after: &[Option<usize>]) -> Execution {
    let n = bodies.len();
    reset_all();
    {
        let mut g = CTL.lock().unwrap_or_else(|p| p.into_inner());
        *g = Some(State {
            current: NONE,
            want: (0..n).map(|i| match start_after.get(i).copied().flatten() {
                Some(e) => Want::NotStartedUntil(e),
                None => Want::NotStarted,
            }).collect(),
            holders: HashMap::new(),
            cond_seq: HashMap::new(),
            write_seq: HashMap::new(),
            last_read: Vec::new(),
            events: vec![false; events],
            prefix: prefix.to_vec(),
            trace: Vec::new(),
            active: true,
            deadlock: false,
            registered: 0,
            blocked_lock_seen: false,
            sym_class: if sym_class.is_empty() { vec![NONE; n] } else { sym_class.to_vec() },
            handles: {
                let mut h: Vec<Option<std::thread::Thread>> = vec![None; n];
                h.push(Some(std::thread::current()));
                h
            },
        });
    }
    let mut handles = Vec::new();
    for (i, b) in bodies.into_iter().enumerate() {
        handles.push(std::thread::spawn(move || {
            TID.with(|t| t.set(i));
            {
                let mut g = CTL.lock().unwrap_or_else(|p| p.into_inner());
                let st = g.as_mut().expect("scheduler state");
                st.handles[i] = Some(std::thread::current());
                st.registered += 1;
                if st.registered == st.want.len() {
                    wake_explorer(st);
                }
            }
            wait_for_baton(i);
            let r = std::panic::catch_unwind(std::panic::AssertUnwindSafe(b));
            let _ = r; // bodies catch what they expect; anything else is recorded by the harness
            // finished: hand the baton on
            let mut g = CTL.lock().unwrap_or_else(|p| p.into_inner());
            let st = g.as_mut().expect("scheduler state");
            st.want[i] = Want::Finished;
            choose(st, i, "finish");
            TID.with(|t| t.set(NONE));
        }));
    }
    // start once every thread has registered its handle
    loop {
        {
            let mut g = CTL.lock().unwrap_or_else(|p| p.into_inner());
            let st = g.as_mut().expect("scheduler state");
            if st.registered == n {
                choose(st, NONE, "start");
                break;
            }
        }
        std::thread::park();
    }
    // wait for the end (or a deadlock)
    let t_wait = std::time::Instant::now();
    let deadlock;
    loop {
        {
            let g = CTL.lock().unwrap_or_else(|p| p.into_inner());
            let st = g.as_ref().expect("scheduler state");
            if !st.active {
                deadlock = st.deadlock;
                break;
            }
            if std::env::var_os("VSCHED_DEBUG").is_some() && t_wait.elapsed().as_secs() > 5 {
                eprintln!("vsched stuck: current={} want={:?} holders={:?} trace_len={} last={:?}", st.current, st.want, st.holders, st.trace.len(), st.trace.iter().rev().take(6).map(|s| (s.at, s.label, s.chosen, s.enabled.clone())).collect::<Vec<_>>());
                std::process::exit(3);
            }
        }
        std::thread::park_timeout(std::time::Duration::from_secs(1));
    }
    if std::env::var_os("VSCHED_DEBUG").is_some() {
        let g = CTL.lock().unwrap_or_else(|p| p.into_inner());
        let st = g.as_ref().unwrap();
        static NEXEC: std::sync::atomic::AtomicU64 = std::sync::atomic::AtomicU64::new(0);
        let k = NEXEC.fetch_add(1, std::sync::atomic::Ordering::Relaxed);
        if k % 200 == 0 || st.trace.len() > 3000 {
            eprintln!("vsched exec #{k}: steps={} prefix={} deadlock={} labels_tail={:?}", st.trace.len(), st.prefix.len(), st.deadlock, st.trace.iter().rev().take(5).map(|s| (s.at, s.label)).collect::<Vec<_>>());
        }
    }
    let mut unfinished = Vec::new();
    if deadlock {
        let g = CTL.lock().unwrap_or_else(|p| p.into_inner());
        let st = g.as_ref().unwrap();
        for (i, w) in st.want.iter().enumerate() {
            if *w != Want::Finished {
                unfinished.push(i);
            }
        }
        // the blocked threads stay parked; the caller is expected to end the process
    } else {
        for h in handles {
            let _ = h.join();
        }
    }
    let mut g = CTL.lock().unwrap_or_else(|p| p.into_inner());
    let st = g.take().unwrap();
    Execution { trace: st.trace, deadlock, blocked_lock_seen: st.blocked_lock_seen, unfinished }
}

/// Number of preemptions in a trace prefix of length `upto`.
pub fn preemptions(trace: &[Step], upto: usize) -> usize {
    trace[..upto].iter().filter(|s| s.at_enabled && s.chosen != s.at).count()
}

pub struct ExploreStats {
    pub schedules: u64,
    pub steps: u64,
    pub max_preemptions_used: usize,
    pub blocked_lock_schedules: u64,
    pub capped: bool,
}

/// Depth-first exploration of all schedules with at most `bound` preemptions.  `run(prefix)`
/// executes once and returns the execution; `check(&Execution, &[usize] schedule)` returns false
/// to stop (violation).  `cap`: maximum number of schedules (0 = none).
pub fn explore(bound: usize, cap: u64, run: impl FnMut(&[usize]) -> Execution, check: impl FnMut(&Execution, &[usize]) -> bool) -> ExploreStats {
    explore_until(bound, cap, None, run, check)
}

/// As [`explore`], additionally stopping (reported as capped) at a wall-clock deadline; at least one
/// schedule is always executed.
pub fn explore_until(bound: usize, cap: u64, deadline: Option<std::time::Instant>, mut run: impl FnMut(&[usize]) -> Execution, mut check: impl FnMut(&Execution, &[usize]) -> bool) -> ExploreStats {
    let mut stats = ExploreStats { schedules: 0, steps: 0, max_preemptions_used: 0, blocked_lock_schedules: 0, capped: false };
    let mut stack: Vec<Vec<usize>> = vec![Vec::new()];
    while let Some(prefix) = stack.pop() {
        if cap != 0 && stats.schedules >= cap {
            stats.capped = true;
            break;
        }
        if stats.schedules > 0 && deadline.map(|d| std::time::Instant::now() > d).unwrap_or(false) {
            stats.capped = true;
            break;
        }
        let ex = run(&prefix);
        stats.schedules += 1;
        stats.steps += ex.trace.len() as u64;
        if ex.blocked_lock_seen {
            stats.blocked_lock_schedules += 1;
        }
        let sched: Vec<usize> = ex.trace.iter().map(|s| s.chosen).collect();
        stats.max_preemptions_used = stats.max_preemptions_used.max(preemptions(&ex.trace, ex.trace.len()));
        if !check(&ex, &sched) {
            break;
        }
        // alternatives at every point after the prefix
        for i in (prefix.len()..ex.trace.len()).rev() {
            let s = &ex.trace[i];
            let before = preemptions(&ex.trace, i);
            for &alt in s.enabled.iter() {
                if alt == s.chosen {
                    continue;
                }
                let cost = before + if s.at_enabled && alt != s.at { 1 } else { 0 };
                if cost > bound {
                    continue;
                }
                let mut p: Vec<usize> = sched[..i].to_vec();
                p.push(alt);
                stack.push(p);
            }
        }
    }
    stats
}
