//! Scheduling-point wrappers with the std API.
// everything of std::sync that is not overridden below (explicit items shadow the glob)
pub use std::sync::*;

use crate::sched;
use std::mem::ManuallyDrop;
use std::ops::{Deref, DerefMut};

pub struct Mutex<T> {
    inner: std::sync::Mutex<T>,
}

pub struct MutexGuard<'a, T: 'a> {
    g: ManuallyDrop<std::sync::MutexGuard<'a, T>>,
    key: usize,
    m: &'a Mutex<T>,
}

impl<T> Mutex<T> {
    pub const fn new(t: T) -> Mutex<T> {
        Mutex { inner: std::sync::Mutex::new(t) }
    }
    pub fn into_inner(self) -> LockResult<T> {
        self.inner.into_inner()
    }

    fn key(&self) -> usize {
        &self.inner as *const std::sync::Mutex<T> as usize
    }

    pub fn lock(&self) -> LockResult<MutexGuard<'_, T>> {
        let key = self.key();
        sched::register_reset(key, clear_poison_of::<T>, key);
        if sched::controlled() {
            sched::acquire(key);
            match self.inner.try_lock() {
                Ok(g) => Ok(MutexGuard { g: ManuallyDrop::new(g), key, m: self }),
                Err(TryLockError::Poisoned(p)) => Err(PoisonError::new(MutexGuard { g: ManuallyDrop::new(p.into_inner()), key, m: self })),
                Err(TryLockError::WouldBlock) => sched::fatal("scheduler granted a lock that is really held (wrapper state and reality diverged)"),
            }
        } else {
            match self.inner.lock() {
                Ok(g) => Ok(MutexGuard { g: ManuallyDrop::new(g), key, m: self }),
                Err(p) => Err(PoisonError::new(MutexGuard { g: ManuallyDrop::new(p.into_inner()), key, m: self })),
            }
        }
    }

    pub fn try_lock(&self) -> TryLockResult<MutexGuard<'_, T>> {
        let key = self.key();
        if sched::controlled() {
            if !sched::try_acquire(key) {
                return Err(TryLockError::WouldBlock);
            }
        }
        match self.inner.try_lock() {
            Ok(g) => Ok(MutexGuard { g: ManuallyDrop::new(g), key, m: self }),
            Err(TryLockError::Poisoned(p)) => Err(TryLockError::Poisoned(PoisonError::new(MutexGuard { g: ManuallyDrop::new(p.into_inner()), key, m: self }))),
            Err(TryLockError::WouldBlock) => {
                if sched::controlled() {
                    sched::fatal("try_lock: scheduler granted a lock that is really held")
                }
                Err(TryLockError::WouldBlock)
            }
        }
    }

    pub fn is_poisoned(&self) -> bool {
        sched::point("mutex.is_poisoned");
        self.inner.is_poisoned()
    }

    pub fn clear_poison(&self) {
        sched::point("mutex.clear_poison");
        self.inner.clear_poison()
    }

    pub fn get_mut(&mut self) -> LockResult<&mut T> {
        self.inner.get_mut()
    }
}

/// Reset hook: statics of the crate under test carry their poison flag from one explored
/// execution into the next; every execution must start like a fresh process.
fn clear_poison_of<T>(p: usize) {
    unsafe { (*(p as *const std::sync::Mutex<T>)).clear_poison() }
}

impl<'a, T> Deref for MutexGuard<'a, T> {
    type Target = T;
    fn deref(&self) -> &T {
        &self.g
    }
}
impl<'a, T> DerefMut for MutexGuard<'a, T> {
    fn deref_mut(&mut self) -> &mut T {
        &mut self.g
    }
}
impl<'a, T> Drop for MutexGuard<'a, T> {
    fn drop(&mut self) {
        // the real guard goes first (it poisons the real mutex when this thread is unwinding) …
        unsafe { ManuallyDrop::drop(&mut self.g) };
        // … then the release becomes visible to the scheduler, followed by a scheduling point so
        // that a waiter can run before the releaser's next step
        if sched::controlled() {
            sched::release(self.key);
        }
    }
}

/// `Condvar` for the wrapper's `MutexGuard`.  Under the scheduler a wait releases the mutex, blocks
/// until the next notification of this condition variable (every notification wakes every waiter,
/// which the std contract allows: wake-ups may be spurious) and takes the mutex again; a waiter is
/// *not enabled* until then, so waiting is visible to the explorer (no spinning).
pub struct Condvar {
    inner: std::sync::Condvar,
}

impl Condvar {
    pub const fn new() -> Condvar {
        Condvar { inner: std::sync::Condvar::new() }
    }
    fn key(&self) -> usize {
        &self.inner as *const std::sync::Condvar as usize
    }
    pub fn wait<'a, T>(&self, guard: MutexGuard<'a, T>) -> LockResult<MutexGuard<'a, T>> {
        let m = guard.m;
        if sched::controlled() {
            let key = self.key();
            let seq = sched::cond_seq(key);
            drop(guard);
            sched::cond_block(key, seq);
            m.lock()
        } else {
            // free-running: hand the real guard to the real condition variable
            let mut guard = guard;
            let key = guard.key;
            let real = unsafe { ManuallyDrop::take(&mut guard.g) };
            std::mem::forget(guard);
            match self.inner.wait(real) {
                Ok(g) => Ok(MutexGuard { g: ManuallyDrop::new(g), key, m }),
                Err(p) => Err(PoisonError::new(MutexGuard { g: ManuallyDrop::new(p.into_inner()), key, m })),
            }
        }
    }
    pub fn wait_while<'a, T, F: FnMut(&mut T) -> bool>(&self, mut guard: MutexGuard<'a, T>, mut condition: F) -> LockResult<MutexGuard<'a, T>> {
        while condition(&mut *guard) {
            guard = match self.wait(guard) {
                Ok(g) => g,
                Err(p) => return Err(p),
            };
        }
        Ok(guard)
    }
    /// Under the scheduler time does not pass: a timed wait behaves like `wait` and never times out.
    pub fn wait_timeout<'a, T>(&self, guard: MutexGuard<'a, T>, _dur: std::time::Duration) -> LockResult<(MutexGuard<'a, T>, WaitTimeoutResult)> {
        // WaitTimeoutResult has no public constructor: obtain "not timed out" from a real zero-contention wait
        let r = {
            let m = std::sync::Mutex::new(());
            let c = std::sync::Condvar::new();
            c.notify_all();
            let g = m.lock().unwrap();
            // a real wait of 0 ns reports timed_out = true; a notified one cannot be forced: use the flag only as a value carrier
            let (_g, r) = c.wait_timeout(g, std::time::Duration::from_nanos(0)).unwrap();
            r
        };
        match self.wait(guard) {
            Ok(g) => Ok((g, r)),
            Err(p) => Err(PoisonError::new((p.into_inner(), r))),
        }
    }
    pub fn notify_one(&self) {
        if sched::controlled() {
            sched::cond_notify(self.key());
        } else {
            self.inner.notify_one()
        }
    }
    pub fn notify_all(&self) {
        if sched::controlled() {
            sched::cond_notify(self.key());
        } else {
            self.inner.notify_all()
        }
    }
}

impl Default for Condvar {
    fn default() -> Self {
        Condvar::new()
    }
}

impl std::fmt::Debug for Condvar {
    fn fmt(&self, f: &mut std::fmt::Formatter<'_>) -> std::fmt::Result {
        f.write_str("Condvar { .. }")
    }
}

impl<T: Default> Default for Mutex<T> {
    fn default() -> Self {
        Mutex::new(T::default())
    }
}

pub mod atomic {
    // everything of std::sync::atomic that is not overridden below
    pub use std::sync::atomic::*;
    use crate::sched;

    macro_rules! wrap_atomic {
        ($name:ident, $std:ty, $prim:ty) => {
            pub struct $name {
                inner: $std,
                init: $prim,
            }
            impl $name {
                pub const fn new(v: $prim) -> Self {
                    Self { inner: <$std>::new(v), init: v }
                }
                fn reg(&self) {
                    fn reset(p: usize, init: usize) {
                        unsafe { (*(p as *const $std)).store(init as $prim, Ordering::SeqCst) }
                    }
                    sched::register_reset2(&self.inner as *const $std as usize, reset, self.init as usize);
                }
                pub fn load(&self, o: Ordering) -> $prim {
                    self.reg();
                    sched::point(concat!(stringify!($name), ".load"));
                    let v = self.inner.load(o);
                    sched::note_read(&self.inner as *const $std as usize, v as u64);
                    v
                }
                pub fn store(&self, v: $prim, o: Ordering) {
                    self.reg();
                    sched::point(concat!(stringify!($name), ".store"));
                    sched::note_write(&self.inner as *const $std as usize);
                    self.inner.store(v, o)
                }
                pub fn swap(&self, v: $prim, o: Ordering) -> $prim {
                    self.reg();
                    sched::point(concat!(stringify!($name), ".swap"));
                    sched::note_write(&self.inner as *const $std as usize);
                    self.inner.swap(v, o)
                }
                pub fn fetch_add(&self, v: $prim, o: Ordering) -> $prim {
                    self.reg();
                    sched::point(concat!(stringify!($name), ".fetch_add"));
                    sched::note_write(&self.inner as *const $std as usize);
                    self.inner.fetch_add(v, o)
                }
                pub fn fetch_sub(&self, v: $prim, o: Ordering) -> $prim {
                    self.reg();
                    sched::point(concat!(stringify!($name), ".fetch_sub"));
                    sched::note_write(&self.inner as *const $std as usize);
                    self.inner.fetch_sub(v, o)
                }
                pub fn fetch_max(&self, v: $prim, o: Ordering) -> $prim {
                    self.reg();
                    sched::point(concat!(stringify!($name), ".fetch_max"));
                    sched::note_write(&self.inner as *const $std as usize);
                    self.inner.fetch_max(v, o)
                }
                pub fn fetch_min(&self, v: $prim, o: Ordering) -> $prim {
                    self.reg();
                    sched::point(concat!(stringify!($name), ".fetch_min"));
                    sched::note_write(&self.inner as *const $std as usize);
                    self.inner.fetch_min(v, o)
                }
                pub fn fetch_and(&self, v: $prim, o: Ordering) -> $prim {
                    self.reg();
                    sched::point(concat!(stringify!($name), ".fetch_and"));
                    sched::note_write(&self.inner as *const $std as usize);
                    self.inner.fetch_and(v, o)
                }
                pub fn fetch_or(&self, v: $prim, o: Ordering) -> $prim {
                    self.reg();
                    sched::point(concat!(stringify!($name), ".fetch_or"));
                    sched::note_write(&self.inner as *const $std as usize);
                    self.inner.fetch_or(v, o)
                }
                pub fn fetch_xor(&self, v: $prim, o: Ordering) -> $prim {
                    self.reg();
                    sched::point(concat!(stringify!($name), ".fetch_xor"));
                    sched::note_write(&self.inner as *const $std as usize);
                    self.inner.fetch_xor(v, o)
                }
                pub fn fetch_nand(&self, v: $prim, o: Ordering) -> $prim {
                    self.reg();
                    sched::point(concat!(stringify!($name), ".fetch_nand"));
                    sched::note_write(&self.inner as *const $std as usize);
                    self.inner.fetch_nand(v, o)
                }
                pub fn as_ptr(&self) -> *mut $prim {
                    self.inner.as_ptr()
                }
                pub fn compare_exchange(&self, c: $prim, n: $prim, s: Ordering, f: Ordering) -> Result<$prim, $prim> {
                    self.reg();
                    sched::point(concat!(stringify!($name), ".compare_exchange"));
                    let r = self.inner.compare_exchange(c, n, s, f);
                    match r {
                        Ok(_) => sched::note_write(&self.inner as *const $std as usize),
                        Err(cur) => sched::note_read(&self.inner as *const $std as usize, cur as u64),
                    }
                    r
                }
                pub fn compare_exchange_weak(&self, c: $prim, n: $prim, s: Ordering, f: Ordering) -> Result<$prim, $prim> {
                    self.reg();
                    sched::point(concat!(stringify!($name), ".compare_exchange_weak"));
                    // no spurious failure under the scheduler: a retry loop would otherwise be unbounded
                    let r = self.inner.compare_exchange(c, n, s, f);
                    match r {
                        Ok(_) => sched::note_write(&self.inner as *const $std as usize),
                        Err(cur) => sched::note_read(&self.inner as *const $std as usize, cur as u64),
                    }
                    r
                }
                pub fn fetch_update<F: FnMut($prim) -> Option<$prim>>(&self, s: Ordering, f: Ordering, mut g: F) -> Result<$prim, $prim> {
                    self.reg();
                    let mut cur = self.load(f);
                    loop {
                        match g(cur) {
                            None => return Err(cur),
                            Some(n) => match self.compare_exchange(cur, n, s, f) {
                                Ok(p) => return Ok(p),
                                Err(p) => cur = p,
                            },
                        }
                    }
                }
                pub fn get_mut(&mut self) -> &mut $prim {
                    self.inner.get_mut()
                }
                pub fn into_inner(self) -> $prim {
                    self.inner.into_inner()
                }
            }
            impl Default for $name {
                fn default() -> Self {
                    Self::new(0)
                }
            }
            impl std::fmt::Debug for $name {
                fn fmt(&self, f: &mut std::fmt::Formatter<'_>) -> std::fmt::Result {
                    self.inner.fmt(f)
                }
            }
        };
    }
    wrap_atomic!(AtomicUsize, std::sync::atomic::AtomicUsize, usize);
    wrap_atomic!(AtomicU64, std::sync::atomic::AtomicU64, u64);
    wrap_atomic!(AtomicU32, std::sync::atomic::AtomicU32, u32);
    wrap_atomic!(AtomicIsize, std::sync::atomic::AtomicIsize, isize);
    wrap_atomic!(AtomicI64, std::sync::atomic::AtomicI64, i64);
    wrap_atomic!(AtomicI32, std::sync::atomic::AtomicI32, i32);

    /// `AtomicBool` with scheduling points (a flag-based lock or latch would otherwise be invisible to the explorer)
    pub struct AtomicBool {
        inner: std::sync::atomic::AtomicBool,
        init: bool,
    }
    macro_rules! bool_rmw {
        ($m:ident) => {
            pub fn $m(&self, v: bool, o: Ordering) -> bool {
                self.reg();
                sched::point(concat!("AtomicBool.", stringify!($m)));
                sched::note_write(&self.inner as *const std::sync::atomic::AtomicBool as usize);
                self.inner.$m(v, o)
            }
        };
    }
    impl AtomicBool {
        pub const fn new(v: bool) -> Self {
            Self { inner: std::sync::atomic::AtomicBool::new(v), init: v }
        }
        fn reg(&self) {
            fn reset(p: usize, init: usize) {
                unsafe { (*(p as *const std::sync::atomic::AtomicBool)).store(init != 0, Ordering::SeqCst) }
            }
            sched::register_reset2(&self.inner as *const std::sync::atomic::AtomicBool as usize, reset, self.init as usize);
        }
        pub fn load(&self, o: Ordering) -> bool {
            self.reg();
            sched::point("AtomicBool.load");
            let v = self.inner.load(o);
            sched::note_read(&self.inner as *const std::sync::atomic::AtomicBool as usize, v as u64);
            v
        }
        pub fn store(&self, v: bool, o: Ordering) {
            self.reg();
            sched::point("AtomicBool.store");
            sched::note_write(&self.inner as *const std::sync::atomic::AtomicBool as usize);
            self.inner.store(v, o)
        }
        bool_rmw!(swap);
        bool_rmw!(fetch_and);
        bool_rmw!(fetch_or);
        bool_rmw!(fetch_xor);
        bool_rmw!(fetch_nand);
        pub fn compare_exchange(&self, c: bool, n: bool, s: Ordering, f: Ordering) -> Result<bool, bool> {
            self.reg();
            sched::point("AtomicBool.compare_exchange");
            let r = self.inner.compare_exchange(c, n, s, f);
            match r {
                Ok(_) => sched::note_write(&self.inner as *const std::sync::atomic::AtomicBool as usize),
                Err(cur) => sched::note_read(&self.inner as *const std::sync::atomic::AtomicBool as usize, cur as u64),
            }
            r
        }
        pub fn compare_exchange_weak(&self, c: bool, n: bool, s: Ordering, f: Ordering) -> Result<bool, bool> {
            self.reg();
            sched::point("AtomicBool.compare_exchange_weak");
            let r = self.inner.compare_exchange(c, n, s, f);
            match r {
                Ok(_) => sched::note_write(&self.inner as *const std::sync::atomic::AtomicBool as usize),
                Err(cur) => sched::note_read(&self.inner as *const std::sync::atomic::AtomicBool as usize, cur as u64),
            }
            r
        }
        pub fn fetch_update<F: FnMut(bool) -> Option<bool>>(&self, s: Ordering, f: Ordering, mut g: F) -> Result<bool, bool> {
            let mut cur = self.load(f);
            loop {
                match g(cur) {
                    None => return Err(cur),
                    Some(n) => match self.compare_exchange(cur, n, s, f) {
                        Ok(p) => return Ok(p),
                        Err(p) => cur = p,
                    },
                }
            }
        }
        pub fn get_mut(&mut self) -> &mut bool {
            self.inner.get_mut()
        }
        pub fn into_inner(self) -> bool {
            self.inner.into_inner()
        }
        pub fn as_ptr(&self) -> *mut bool {
            self.inner.as_ptr()
        }
    }
    impl Default for AtomicBool {
        fn default() -> Self {
            Self::new(false)
        }
    }
    impl std::fmt::Debug for AtomicBool {
        fn fmt(&self, f: &mut std::fmt::Formatter<'_>) -> std::fmt::Result {
            self.inner.fmt(f)
        }
    }
}
