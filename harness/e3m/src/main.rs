//! E3 against the mounted crate.
extern crate vcore as inj;
#[path = "../../shared/envx_mounted.rs"]
mod envx;
#[path = "../../shared/e3_core.rs"]
mod e3_core;
#[path = "../../shared/e3_hist.rs"]
mod e3_hist;
#[path = "../../shared/e3_times.rs"]
mod e3_times;
#[path = "../../shared/e3_async.rs"]
mod e3_async;
#[path = "../../shared/e3_wide.rs"]
mod e3_wide;
#[path = "../../shared/e3_main.rs"]
mod e3_main;

fn main() {
    e3_main::main()
}
