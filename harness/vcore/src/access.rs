//! Harness access module, compiled *inside* the mounted crate (appended to its lib.rs by
//! tools/mount.py).  It only forwards; it contains no logic the properties talk about.
//!
//! Everything that names a *private* item of the repository is behind a cargo feature of its own
//! (a "seam"), so that a refactor which renames or restructures private code costs at most the
//! sub-domain that needed that seam, never the build:
//!
//! * no feature: the x86-64 back-end through the crate's **public** API only;
//! * `seam_arm64` / `seam_arm32`: the AArch64 / 32-bit ARM back-ends, called through the private
//!   `PatchTrait` implementations (the public API dispatches by `cfg(target_arch)` and can only
//!   reach the host's back-end);
//! * `seam_macsim`: the copy of `patch_arm64.rs` with the macOS branch selected;
//! * `seam_macenc`: the macOS entry encoder as a pure function;
//! * `priv_amd64` / `priv_arm64` / `priv_macsim`: module-private encoder entry points (R4).
use crate::interface::injector::{FuncPtr, InjectorPP};

pub use libc::venv;

/// Owns one installation; dropping it removes the installation the way the crate does.
pub enum Guard {
    /// made through the public API: the injector owns the patch
    Public(#[allow(dead_code)] Box<InjectorPP>),
    #[cfg(any(feature = "seam_arm64", feature = "seam_arm32", feature = "seam_macsim", feature = "priv_amd64"))]
    Raw(#[allow(dead_code)] crate::injector_core::common::PatchGuard),
}

#[derive(Clone, Copy, Debug, PartialEq, Eq, Hash)]
pub enum Backend {
    /// what the public API dispatches to on this host
    Amd64,
    Arm64Linux,
    Arm64MacEncoder,
    Arm32,
}

pub const HAS_ARM64: bool = cfg!(feature = "seam_arm64");
pub const HAS_ARM32: bool = cfg!(feature = "seam_arm32");
pub const HAS_MACSIM: bool = cfg!(feature = "seam_macsim");
pub const HAS_MACENC: bool = cfg!(feature = "seam_macenc");

pub fn has(b: Backend) -> bool {
    match b {
        Backend::Amd64 => true,
        Backend::Arm64Linux => HAS_ARM64,
        Backend::Arm64MacEncoder => HAS_MACSIM,
        Backend::Arm32 => HAS_ARM32,
    }
}

#[cfg(any(feature = "seam_arm64", feature = "seam_arm32", feature = "seam_macsim", feature = "priv_amd64"))]
unsafe fn fpi(addr: usize) -> crate::injector_core::common::FuncPtrInternal {
    crate::injector_core::common::FuncPtrInternal::new(std::ptr::NonNull::new(addr as *mut ()).expect("null address in harness"))
}

/// Install "calls to `src` go to `target`" with the given back-end.
///
/// # Safety
/// `src` must be the address of patchable memory of at least 16 bytes.
pub unsafe fn replace(b: Backend, src: usize, target: usize) -> Guard {
    match b {
        Backend::Amd64 => {
            let mut injector = Box::new(InjectorPP::new());
            injector
                .when_called_unchecked(FuncPtr::new(src as *const (), ""))
                .will_execute_raw_unchecked(FuncPtr::new(target as *const (), ""));
            Guard::Public(injector)
        }
        #[cfg(feature = "seam_arm64")]
        Backend::Arm64Linux => Guard::Raw(crate::__verif_glue::arm64_replace(fpi(src), fpi(target))),
        #[cfg(feature = "seam_macsim")]
        Backend::Arm64MacEncoder => Guard::Raw(crate::__verif_glue::macsim_replace(fpi(src), fpi(target))),
        #[cfg(feature = "seam_arm32")]
        Backend::Arm32 => Guard::Raw(crate::__verif_glue::arm32_replace(fpi(src), fpi(target))),
        #[allow(unreachable_patterns)]
        other => panic!("harness: back-end {other:?} is not reachable in this build (seam feature off)"),
    }
}

/// Install "calls to `src` return `value`".
///
/// # Safety
/// as for [`replace`].
pub unsafe fn replace_bool(b: Backend, src: usize, value: bool) -> Guard {
    match b {
        Backend::Amd64 => {
            let mut injector = Box::new(InjectorPP::new());
            injector.when_called(FuncPtr::new(src as *const (), "fn() -> bool")).will_return_boolean(value);
            Guard::Public(injector)
        }
        #[cfg(feature = "seam_arm64")]
        Backend::Arm64Linux => Guard::Raw(crate::__verif_glue::arm64_bool(fpi(src), value)),
        #[cfg(feature = "seam_macsim")]
        Backend::Arm64MacEncoder => Guard::Raw(crate::__verif_glue::macsim_bool(fpi(src), value)),
        #[cfg(feature = "seam_arm32")]
        Backend::Arm32 => Guard::Raw(crate::__verif_glue::arm32_bool(fpi(src), value)),
        #[allow(unreachable_patterns)]
        other => panic!("harness: back-end {other:?} is not reachable in this build (seam feature off)"),
    }
}

/// The macOS entry encoder (pure function of two addresses).
#[cfg(feature = "seam_macenc")]
pub fn macos_entry_words(pc: usize, target: usize) -> Vec<u32> {
    crate::__verif_glue::macos_entry_encoder(pc, target)
}

/// # Safety
/// as for [`replace`]; `jit` need not be a mapping the allocator returned (the caller must then
/// `mem::forget` the guard).
#[cfg(all(feature = "priv_arm64", feature = "seam_arm64"))]
pub unsafe fn arm64_apply_branch_patch(src: usize, jit: usize, size: usize, orig: &[u8]) -> Guard {
    Guard::Raw(crate::injector_core::patch_arm64::__verif_access::apply(fpi(src), jit as *mut u8, size, orig))
}

/// # Safety
/// as for [`arm64_apply_branch_patch`] (macOS branch of the entry encoder).
#[cfg(all(feature = "priv_macsim", feature = "seam_macsim"))]
pub unsafe fn arm64mac_apply_branch_patch(src: usize, jit: usize, size: usize, orig: &[u8]) -> Guard {
    Guard::Raw(crate::patch_arm64_macsim::__verif_access::apply(fpi(src), jit as *mut u8, size, orig))
}

#[cfg(feature = "priv_amd64")]
pub fn amd64_branch(ori: usize, target: usize) -> Vec<u8> {
    crate::injector_core::patch_amd64::__verif_access::branch(ori, target)
}

/// # Safety
/// as for [`arm64_apply_branch_patch`].
#[cfg(feature = "priv_amd64")]
pub unsafe fn amd64_patch_and_guard(src: usize, jit: usize, size: usize) -> Guard {
    Guard::Raw(crate::injector_core::patch_amd64::__verif_access::patch(fpi(src), jit as *mut u8, size))
}
