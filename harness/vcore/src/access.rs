//! Harness access module, compiled *inside* the mounted crate (appended to its lib.rs by
//! tools/mount.py) so that it can reach `pub(crate)` items.  It only forwards; it contains no
//! logic the properties talk about.
use crate::injector_core::common::{FuncPtrInternal, PatchGuard};
use crate::injector_core::patch_trait::PatchTrait;
use std::ptr::NonNull;

pub use libc::venv;

/// Owns one installation made below the public API; dropping it runs the crate's `PatchGuard::drop`.
pub struct Guard(#[allow(dead_code)] PatchGuard);

#[derive(Clone, Copy, Debug, PartialEq, Eq, Hash)]
pub enum Backend {
    /// through `WhenCalled` (internal.rs), i.e. what the public API dispatches to on this host
    Amd64,
    Arm64Linux,
    Arm64MacEncoder,
    Arm32,
}

unsafe fn fpi(addr: usize) -> FuncPtrInternal {
    FuncPtrInternal::new(NonNull::new(addr as *mut ()).expect("null address in harness"))
}

/// Install "calls to `src` go to `target`" with the given back-end.
///
/// # Safety
/// `src` must be the address of patchable memory of at least 16 bytes.
pub unsafe fn replace(b: Backend, src: usize, target: usize) -> Guard {
    let (s, t) = (fpi(src), fpi(target));
    Guard(match b {
        Backend::Amd64 => crate::injector_core::internal::WhenCalled::new(s).will_execute_guard(t),
        Backend::Arm64Linux => {
            crate::injector_core::patch_arm64::PatchArm64::replace_function_with_other_function(s, t)
        }
        Backend::Arm64MacEncoder => {
            crate::patch_arm64_macsim::PatchArm64::replace_function_with_other_function(s, t)
        }
        Backend::Arm32 => crate::injector_core::patch_arm::PatchArm::replace_function_with_other_function(s, t),
    })
}

/// Install "calls to `src` return `value`".
///
/// # Safety
/// as for [`replace`].
pub unsafe fn replace_bool(b: Backend, src: usize, value: bool) -> Guard {
    let s = fpi(src);
    Guard(match b {
        Backend::Amd64 => crate::injector_core::internal::WhenCalled::new(s).will_return_boolean_guard(value),
        Backend::Arm64Linux => crate::injector_core::patch_arm64::PatchArm64::replace_function_return_boolean(s, value),
        Backend::Arm64MacEncoder => {
            crate::patch_arm64_macsim::PatchArm64::replace_function_return_boolean(s, value)
        }
        Backend::Arm32 => crate::injector_core::patch_arm::PatchArm::replace_function_return_boolean(s, value),
    })
}

/// The macOS entry encoder (pure function of two addresses).
pub fn macos_entry_words(pc: usize, target: usize) -> Vec<u32> {
    crate::injector_core::arm64_codegenerator::maybe_emit_long_jump(pc, target)
}

/// Trampoline allocator, as the back-ends call it.
///
/// # Safety
/// none beyond `src != 0`; the returned page is owned by the caller.
pub unsafe fn allocate_jit(src: usize, size: usize) -> *mut u8 {
    crate::injector_core::common::allocate_jit_memory(&fpi(src), size)
}

/// # Safety
/// as for [`replace`]; `jit` need not be a mapping the allocator returned (the caller must then
/// `mem::forget` the guard).
#[cfg(feature = "priv_access")]
pub unsafe fn arm64_apply_branch_patch(src: usize, jit: usize, size: usize, orig: &[u8]) -> Guard {
    Guard(crate::injector_core::patch_arm64::__verif_access::apply(fpi(src), jit as *mut u8, size, orig))
}

/// # Safety
/// as for [`arm64_apply_branch_patch`] (macOS branch of the entry encoder).
#[cfg(feature = "priv_access")]
pub unsafe fn arm64mac_apply_branch_patch(src: usize, jit: usize, size: usize, orig: &[u8]) -> Guard {
    Guard(crate::patch_arm64_macsim::__verif_access::apply(fpi(src), jit as *mut u8, size, orig))
}

#[cfg(feature = "priv_access")]
pub fn amd64_branch(ori: usize, target: usize) -> Vec<u8> {
    crate::injector_core::patch_amd64::__verif_access::branch(ori, target)
}

/// # Safety
/// as for [`arm64_apply_branch_patch`].
#[cfg(feature = "priv_access")]
pub unsafe fn amd64_patch_and_guard(src: usize, jit: usize, size: usize) -> Guard {
    Guard(crate::injector_core::patch_amd64::__verif_access::patch(fpi(src), jit as *mut u8, size))
}
