//! Synthetic code: pages mapped at addresses the scenario chooses, holding tiny functions.
use libc::c_void;

pub const RX: i32 = libc::PROT_READ | libc::PROT_EXEC;
pub const RWX: i32 = libc::PROT_READ | libc::PROT_WRITE | libc::PROT_EXEC;
pub const RW: i32 = libc::PROT_READ | libc::PROT_WRITE;

/// Map `[addr, addr+len)` exactly there (never over an existing mapping).
pub fn map_fixed(addr: u64, len: u64, prot: i32) -> Result<(), String> {
    unsafe {
        let p = libc::mmap(
            addr as *mut c_void,
            len as usize,
            prot,
            libc::MAP_PRIVATE | libc::MAP_ANONYMOUS | libc::MAP_FIXED_NOREPLACE,
            -1,
            0,
        );
        if p == libc::MAP_FAILED {
            return Err(format!("mmap({addr:#x},{len:#x}) failed: {}", std::io::Error::last_os_error()));
        }
        if p as u64 != addr {
            libc::munmap(p, len as usize);
            return Err(format!("mmap({addr:#x},{len:#x}) placed at {:#x}", p as u64));
        }
        Ok(())
    }
}

pub fn unmap(addr: u64, len: u64) {
    unsafe {
        libc::munmap(addr as *mut c_void, len as usize);
    }
}

pub fn protect(addr: u64, len: u64, prot: i32) -> bool {
    unsafe { libc::mprotect(addr as *mut c_void, len as usize, prot) == 0 }
}

/// # Safety
/// `[addr, addr+bytes.len())` must be writable.
pub unsafe fn write(addr: u64, bytes: &[u8]) {
    std::ptr::copy_nonoverlapping(bytes.as_ptr(), addr as *mut u8, bytes.len());
}

/// Harness-side write into a region the code under test may have re-protected in the meantime
/// (an installation is free to leave a code page r-x or rwx): the pages are made writable first.
/// # Safety
/// `[addr, addr+bytes.len())` must be mapped.
pub unsafe fn write_force(addr: u64, bytes: &[u8]) {
    let start = addr & !0xFFF;
    let end = (addr + bytes.len() as u64 + 0xFFF) & !0xFFF;
    libc::mprotect(start as *mut c_void, (end - start) as usize, RW);
    write(addr, bytes);
}

/// # Safety
/// `[addr, addr+len)` must be readable.
pub unsafe fn read(addr: u64, len: usize) -> Vec<u8> {
    let mut v = vec![0u8; len];
    std::ptr::copy_nonoverlapping(addr as *const u8, v.as_mut_ptr(), len);
    v
}

/// x86-64: `mov eax, imm32 ; ret` padded with `int3` to `size` bytes (size >= 6).
pub fn x64_ret_const(value: u32, size: usize) -> Vec<u8> {
    let mut v = vec![0xB8];
    v.extend_from_slice(&value.to_le_bytes());
    v.push(0xC3);
    while v.len() < size {
        v.push(0xCC);
    }
    v
}

/// Call a synthetic `fn() -> u32`.
///
/// # Safety
/// `addr` must hold executable code following the C ABI.
pub unsafe fn call_u32(addr: u64) -> u32 {
    let f: extern "C" fn() -> u32 = std::mem::transmute(addr as usize);
    f()
}
