//! Flush-coverage oracle (C17) and byte-diff helpers; lives here so that it is compiled optimised.

/// One OS call of the crate as seen by the environment.
pub struct Point<'a> {
    pub is_flush: bool,
    /// flush range [a, b)
    pub a: u64,
    pub b: u64,
    /// content of [a, b) when the flush was requested
    pub snap: Option<&'a [u8]>,
    /// watched regions, then address-prefixed heads of injector-owned mappings, just before the call
    pub watch: &'a [Vec<u8>],
}

/// Positions at which two equally long byte strings differ.
pub fn diff_positions(a: &[u8], b: &[u8]) -> Vec<usize> {
    if a == b {
        return Vec::new();
    }
    a.iter().zip(b.iter()).enumerate().filter(|(_, (x, y))| x != y).map(|(i, _)| i).collect()
}

/// For every code byte that changed during one API call (between `before` and `after`, or at any
/// intermediate OS call): some flush at or after the last change must cover it and must have seen
/// its final value.  Returns the first violation as (key, description).
pub fn check(log: &[Point], before: &[Vec<u8>], after: &[Vec<u8>], watch: &[(u64, u64)], api: &str) -> Option<(&'static str, String)> {
    let nw = watch.len();
    let mut points: Vec<&[Vec<u8>]> = Vec::with_capacity(log.len() + 2);
    points.push(before);
    for c in log {
        points.push(c.watch);
    }
    points.push(after);
    let last = points.len() - 1;
    let judge = |addr: u64, series: &[Option<u8>]| -> Option<(&'static str, String)> {
        let fv = series[last]?; // unmapped before return: exempt
        let mut last_change: Option<usize> = None;
        for i in 1..=last {
            match (series[i - 1], series[i]) {
                (Some(p), Some(c)) if p != c => last_change = Some(i),
                (None, Some(c)) if c != 0 => last_change = Some(i),
                _ => {}
            }
        }
        let lc = last_change?;
        // the change became visible at point lc: it happened before OS call lc-1 took effect (or,
        // for lc == last, after the last OS call); a covering flush must be call lc-1 or later
        let mut covered = false;
        let mut stale = false;
        for (j, c) in log.iter().enumerate() {
            if !c.is_flush || j + 1 < lc {
                continue;
            }
            if c.a <= addr && addr < c.b {
                match c.snap {
                    Some(s) if s.get((addr - c.a) as usize).copied() == Some(fv) => covered = true,
                    _ => stale = true,
                }
            }
        }
        if covered {
            return None;
        }
        let key = if stale { "flushed-before-final-write" } else { "written-not-flushed" };
        Some((key, format!("{api}: code byte {addr:#x} was written (final value {fv:#04x}) but no later instruction-cache flush covers it holding that value")))
    };
    for r in 0..nw {
        let first = points[0].get(r);
        if points.iter().all(|p| p.get(r) == first) {
            continue;
        }
        let len = watch[r].1 as usize;
        for off in 0..len {
            let series: Vec<Option<u8>> = points.iter().map(|p| p.get(r).and_then(|v| v.get(off).copied())).collect();
            if series.windows(2).all(|w| w[0] == w[1]) {
                continue;
            }
            if let Some(v) = judge(watch[r].0 + off as u64, &series) {
                return Some(v);
            }
        }
    }
    let mut addrs: Vec<u64> = Vec::new();
    for p in &points {
        for rec in p.iter().skip(nw) {
            if rec.len() >= 8 {
                let a = u64::from_le_bytes(rec[..8].try_into().unwrap());
                if !addrs.contains(&a) {
                    addrs.push(a);
                }
            }
        }
    }
    for a in addrs {
        let recs: Vec<Option<&[u8]>> = points
            .iter()
            .map(|p| p.iter().skip(nw).find(|rec| rec.len() >= 8 && u64::from_le_bytes(rec[..8].try_into().unwrap()) == a).map(|rec| &rec[8..]))
            .collect();
        for off in 0..64usize {
            let series: Vec<Option<u8>> = recs.iter().map(|r| r.and_then(|b| b.get(off).copied())).collect();
            if series.iter().all(|x| x.is_none() || *x == Some(0)) {
                continue;
            }
            if let Some(v) = judge(a + off as u64, &series) {
                return Some(v);
            }
        }
    }
    for c in log.iter().filter(|c| c.is_flush) {
        if c.b < c.a {
            return Some(("flush-range-inverted", format!("{api}: flush range [{:#x},{:#x}) has start > end", c.a, c.b)));
        }
    }
    None
}
