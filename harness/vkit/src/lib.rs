//! Shared harness utilities: process isolation, synthetic code arenas, instruction decoders and
//! abstract machines (the independent oracles), evidence helpers.  Depends on nothing of the
//! crate under verification.
pub mod a32;
pub mod a64;
pub mod arena;
pub mod flush;
pub mod isolate;
pub mod proc;
pub mod x64;

pub use serde_json;
