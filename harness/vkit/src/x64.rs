//! Independent x86-64 decoder + abstract machine for the handful of instructions a redirection
//! stub can legitimately consist of.  Shares no code with the emitters under verification.
//!
//! Registers are either *initial* (whatever the caller had; never read by a legal stub) or hold a
//! concrete value.  The machine runs from an entry point while the program counter stays inside
//! memory the injector wrote (`ours`), and reports where control leaves it.

#[derive(Clone, Debug, PartialEq, Eq)]
pub enum Stop {
    /// control left injector-written memory for `pc` (a jump/ret to code elsewhere)
    Left { pc: u64 },
    /// a `ret` to the caller was executed (stack balanced)
    Returned,
    /// the bytes at `pc` are not an instruction this decoder knows
    Unknown { pc: u64, bytes: Vec<u8> },
    /// the machine would fault or trap here
    Fault { pc: u64, why: String },
    StepLimit,
}

#[derive(Clone, Debug)]
pub struct Run {
    pub stop: Stop,
    /// concrete register values (index = hardware number, rax=0 rcx=1 rdx=2 rbx=3 rsp=4 rbp=5 rsi=6 rdi=7 r8..r15)
    pub regs: [Option<u64>; 16],
    /// registers written (bit i)
    pub written: u16,
    /// registers read while still holding the caller's value (bit i)
    pub read_initial: u16,
    pub flags_written: bool,
    /// net change of rsp at the stop, in bytes (after a `ret` to the caller: +8)
    pub rsp_delta: i64,
    pub mem_writes: u32,
    /// low byte of rax when only that byte was written (`mov al, imm8`)
    pub al_only: Option<u8>,
    pub steps: u32,
    /// the instruction trace, for evidence and diagnostics
    pub trace: Vec<String>,
}

pub const RAX: usize = 0;
pub const R10: usize = 10;
pub const R11: usize = 11;

/// Registers a redirection stub may clobber under the SysV ABI without the caller or the callee
/// noticing: rax (not an argument; return value is produced later by the fake), r10, r11.
pub const SCRATCH_OK: u16 = (1 << RAX) | (1 << R10) | (1 << R11);

fn rd(mem: &dyn Fn(u64, usize) -> Option<Vec<u8>>, a: u64, n: usize) -> Option<Vec<u8>> {
    mem(a, n)
}

/// Execute from `entry`.  `mem(addr, n)` reads the post-installation memory image; `ours(addr)`
/// says whether an address lies in memory the injector wrote (entry slot, trampolines).
pub fn run(entry: u64, mem: &dyn Fn(u64, usize) -> Option<Vec<u8>>, ours: &dyn Fn(u64) -> bool, max_steps: u32) -> Run {
    run_to(entry, mem, ours, max_steps, None)
}

/// As [`run`], additionally stopping as soon as control reaches `goal` (which may itself lie in
/// injector-written memory).
pub fn run_to(entry: u64, mem: &dyn Fn(u64, usize) -> Option<Vec<u8>>, ours: &dyn Fn(u64) -> bool, max_steps: u32, goal: Option<u64>) -> Run {
    let mut r = Run {
        stop: Stop::StepLimit,
        regs: [None; 16],
        written: 0,
        read_initial: 0,
        flags_written: false,
        rsp_delta: 0,
        mem_writes: 0,
        al_only: None,
        steps: 0,
        trace: Vec::new(),
    };
    let mut pc = entry;
    let mut stack: Vec<Option<u64>> = Vec::new(); // values pushed by the stub itself
    loop {
        if r.steps > 0 && (!ours(pc) || goal == Some(pc)) {
            r.stop = Stop::Left { pc };
            return r;
        }
        if r.steps >= max_steps {
            r.stop = Stop::StepLimit;
            return r;
        }
        r.steps += 1;
        let b = match rd(mem, pc, 1) {
            Some(b) => b,
            None => {
                r.stop = Stop::Fault { pc, why: "instruction fetch from unmapped memory".into() };
                return r;
            }
        };
        // fetch up to 15 bytes, as many as are readable
        let mut win = b;
        for n in (2..=15).rev() {
            if let Some(w) = rd(mem, pc, n) {
                win = w;
                break;
            }
        }
        let mut i = 0usize;
        let mut rex: u8 = 0;
        let mut opsize16 = false;
        if win[i] == 0x66 {
            opsize16 = true;
            i += 1;
        }
        if i < win.len() && (win[i] & 0xF0) == 0x40 {
            rex = win[i];
            i += 1;
        }
        macro_rules! need {
            ($n:expr) => {
                if win.len() < i + $n {
                    r.stop = Stop::Fault { pc, why: "instruction runs into unmapped memory".into() };
                    return r;
                }
            };
        }
        need!(1);
        let op = win[i];
        i += 1;
        let rex_w = rex & 8 != 0;
        let rex_b = (rex & 1) as usize;
        match op {
            0x90 => {
                r.trace.push("nop".into());
                pc += i as u64;
            }
            0xCC => {
                r.stop = Stop::Fault { pc, why: "int3".into() };
                return r;
            }
            0xE9 => {
                need!(4);
                let d = i32::from_le_bytes(win[i..i + 4].try_into().unwrap());
                i += 4;
                let t = pc.wrapping_add(i as u64).wrapping_add(d as i64 as u64);
                r.trace.push(format!("jmp {t:#x}"));
                pc = t;
            }
            0xEB => {
                need!(1);
                let d = win[i] as i8;
                i += 1;
                let t = pc.wrapping_add(i as u64).wrapping_add(d as i64 as u64);
                r.trace.push(format!("jmp short {t:#x}"));
                pc = t;
            }
            0xB8..=0xBF => {
                let reg = (op - 0xB8) as usize + 8 * rex_b;
                if rex_w {
                    need!(8);
                    let v = u64::from_le_bytes(win[i..i + 8].try_into().unwrap());
                    i += 8;
                    r.regs[reg] = Some(v);
                    r.trace.push(format!("mov r{reg}, {v:#x}"));
                } else if opsize16 {
                    r.stop = Stop::Unknown { pc, bytes: win.clone() };
                    return r;
                } else {
                    need!(4);
                    let v = u32::from_le_bytes(win[i..i + 4].try_into().unwrap()) as u64;
                    i += 4;
                    r.regs[reg] = Some(v);
                    r.trace.push(format!("mov r{reg}d, {v:#x}"));
                }
                r.written |= 1 << reg;
                pc += i as u64;
            }
            0xC7 => {
                need!(1);
                let modrm = win[i];
                i += 1;
                if modrm & 0xF8 != 0xC0 {
                    r.stop = Stop::Unknown { pc, bytes: win.clone() };
                    return r;
                }
                let reg = (modrm & 7) as usize + 8 * rex_b;
                need!(4);
                let v32 = i32::from_le_bytes(win[i..i + 4].try_into().unwrap());
                i += 4;
                let v = if rex_w { v32 as i64 as u64 } else { v32 as u32 as u64 };
                r.regs[reg] = Some(v);
                r.written |= 1 << reg;
                r.trace.push(format!("mov r{reg}, {v:#x}"));
                pc += i as u64;
            }
            0xB0..=0xB7 if rex == 0 && op == 0xB0 => {
                // mov al, imm8: writes only the low byte; upper bits stay the caller's
                need!(1);
                let v = win[i] as u64;
                i += 1;
                r.regs[RAX] = r.regs[RAX].map(|o| (o & !0xFF) | v);
                if r.regs[RAX].is_none() {
                    r.al_only = Some(v as u8);
                }
                r.written |= 1 << RAX;
                r.trace.push(format!("mov al, {v:#x}"));
                pc += i as u64;
            }
            0x31 | 0x33 => {
                // xor r32, r32 with both operands the same register = zeroing idiom
                need!(1);
                let modrm = win[i];
                i += 1;
                let a = ((modrm >> 3) & 7) as usize + 8 * ((rex >> 2) & 1) as usize;
                let bb = (modrm & 7) as usize + 8 * rex_b;
                if modrm & 0xC0 != 0xC0 || a != bb {
                    r.stop = Stop::Unknown { pc, bytes: win.clone() };
                    return r;
                }
                r.regs[a] = Some(0);
                r.written |= 1 << a;
                r.flags_written = true;
                r.trace.push(format!("xor r{a}d, r{a}d"));
                pc += i as u64;
            }
            0xFF => {
                need!(1);
                let modrm = win[i];
                i += 1;
                let ext = (modrm >> 3) & 7;
                if modrm & 0xC0 == 0xC0 && ext == 4 {
                    let reg = (modrm & 7) as usize + 8 * rex_b;
                    match r.regs[reg] {
                        Some(v) => {
                            r.trace.push(format!("jmp r{reg} (={v:#x})"));
                            pc = v;
                        }
                        _ => {
                            r.read_initial |= 1 << reg;
                            r.stop = Stop::Fault { pc, why: format!("jmp through r{reg} which holds the caller's value") };
                            return r;
                        }
                    }
                } else if modrm == 0x25 {
                    need!(4);
                    let d = i32::from_le_bytes(win[i..i + 4].try_into().unwrap());
                    i += 4;
                    let slot = pc.wrapping_add(i as u64).wrapping_add(d as i64 as u64);
                    match rd(mem, slot, 8) {
                        Some(v) => {
                            let t = u64::from_le_bytes(v.try_into().unwrap());
                            r.trace.push(format!("jmp [rip+{d}] (slot {slot:#x} = {t:#x})"));
                            pc = t;
                        }
                        None => {
                            r.stop = Stop::Fault { pc, why: format!("jmp [rip+{d}]: slot {slot:#x} unmapped") };
                            return r;
                        }
                    }
                } else {
                    r.stop = Stop::Unknown { pc, bytes: win.clone() };
                    return r;
                }
            }
            0x68 => {
                need!(4);
                let v = i32::from_le_bytes(win[i..i + 4].try_into().unwrap()) as i64 as u64;
                i += 4;
                stack.push(Some(v));
                r.rsp_delta -= 8;
                r.mem_writes += 1;
                r.trace.push(format!("push {v:#x}"));
                pc += i as u64;
            }
            0x50..=0x57 => {
                let reg = (op - 0x50) as usize + 8 * rex_b;
                if r.regs[reg].is_none() {
                    r.read_initial |= 1 << reg;
                }
                stack.push(r.regs[reg]);
                r.rsp_delta -= 8;
                r.mem_writes += 1;
                r.trace.push(format!("push r{reg}"));
                pc += i as u64;
            }
            0x58..=0x5F => {
                let reg = (op - 0x58) as usize + 8 * rex_b;
                match stack.pop() {
                    Some(v) => {
                        r.regs[reg] = v;
                        r.written |= 1 << reg;
                        r.rsp_delta += 8;
                        r.trace.push(format!("pop r{reg}"));
                        pc += i as u64;
                    }
                    None => {
                        r.stop = Stop::Fault { pc, why: "pop of a caller-owned stack slot".into() };
                        return r;
                    }
                }
            }
            0xC3 => match stack.pop() {
                Some(Some(v)) => {
                    r.rsp_delta += 8;
                    r.trace.push(format!("ret (to pushed {v:#x})"));
                    pc = v;
                }
                Some(None) => {
                    r.stop = Stop::Fault { pc, why: "ret to a pushed caller value".into() };
                    return r;
                }
                None => {
                    r.rsp_delta += 8;
                    r.trace.push("ret".into());
                    r.stop = Stop::Returned;
                    return r;
                }
            },
            0x0F => {
                need!(1);
                let op2 = win[i];
                i += 1;
                if op2 == 0x1F {
                    // multi-byte nop: 0F 1F /0 with any addressing form
                    need!(1);
                    let modrm = win[i];
                    i += 1;
                    let md = modrm >> 6;
                    let rm = modrm & 7;
                    if md != 3 && rm == 4 {
                        i += 1;
                    }
                    i += match md {
                        1 => 1,
                        2 => 4,
                        0 if rm == 5 => 4,
                        _ => 0,
                    };
                    need!(0);
                    r.trace.push("nop (long)".into());
                    pc += i as u64;
                } else {
                    r.stop = Stop::Unknown { pc, bytes: win.clone() };
                    return r;
                }
            }
            _ => {
                r.stop = Stop::Unknown { pc, bytes: win.clone() };
                return r;
            }
        }
    }
}

/// The low byte of rax at the stop, if known.
pub fn al(r: &Run) -> Option<u8> {
    r.regs[RAX].map(|v| v as u8).or(r.al_only)
}
