//! Run cases in forked children so that a case that kills the process (a wrong branch does
//! exactly that) is an observation, not the end of the exploration.

#[derive(Debug, Clone)]
pub enum Outcome {
    /// the case ran to completion and produced this output
    Done(Vec<u8>),
    /// the child was killed by this signal while running the case; second field: the last
    /// progress value the case published with [`set_progress`]
    Signal(i32, u64),
    /// the child exited with this status while running the case (process::abort shows as Signal 6)
    Exit(i32, u64),
    /// no progress within the deadline; the child was killed
    Timeout(u64),
}

struct Shared {
    current: *mut u64,
}

static PROGRESS: std::sync::atomic::AtomicUsize = std::sync::atomic::AtomicUsize::new(0);

/// Publish a free-form note (at most 3000 bytes) for the running case; the parent can read the
/// note of a case whose child died with [`crash_note`].
pub fn set_note(b: &[u8]) {
    let p = PROGRESS.load(std::sync::atomic::Ordering::Relaxed) as *mut u8;
    if !p.is_null() {
        let n = b.len().min(3000);
        unsafe {
            std::ptr::write_volatile(p.add(16) as *mut u32, n as u32);
            std::ptr::copy_nonoverlapping(b.as_ptr(), p.add(24), n);
        }
    }
}

static NOTES: std::sync::Mutex<Vec<(usize, Vec<u8>)>> = std::sync::Mutex::new(Vec::new());

/// The note the child had published when it died while running case `i` of the last `run`.
pub fn crash_note(i: usize) -> Option<Vec<u8>> {
    NOTES.lock().unwrap().iter().find(|x| x.0 == i).map(|x| x.1.clone())
}

/// Publish a progress marker for the running case (survives the death of the child).
pub fn set_progress(v: u64) {
    let p = PROGRESS.load(std::sync::atomic::Ordering::Relaxed) as *mut u64;
    if !p.is_null() {
        unsafe { std::ptr::write_volatile(p, v) };
    }
}

fn shared_counter() -> Shared {
    unsafe {
        let p = libc::mmap(
            std::ptr::null_mut(),
            4096,
            libc::PROT_READ | libc::PROT_WRITE,
            libc::MAP_SHARED | libc::MAP_ANONYMOUS,
            -1,
            0,
        );
        assert!(p != libc::MAP_FAILED);
        Shared { current: p as *mut u64 }
    }
}

/// Silence the default panic message (children and explorers catch panics and report them).
pub fn quiet_panics() {
    std::panic::set_hook(Box::new(|_| {}));
}

/// Run `f(i)` for every `i` in `0..n`, `per_child` consecutive cases per forked child
/// (1 = every case starts from the pristine image of the parent).  The calling process must be
/// single-threaded.  `deadline_ms` bounds the time without any completed case.
pub fn run<F: Fn(usize) -> (Vec<u8>, bool)>(n: usize, per_child: usize, deadline_ms: i32, f: F) -> Vec<Outcome> {
    let mut out: Vec<Outcome> = Vec::with_capacity(n);
    NOTES.lock().unwrap().clear();
    let sh = shared_counter();
    PROGRESS.store(unsafe { sh.current.add(1) } as usize, std::sync::atomic::Ordering::Relaxed);
    let mut start = 0usize;
    let mut timeouts = 0usize;
    while start < n {
        // a tree on which case after case hangs would take hours at one deadline each: after a few
        // hangs the rest of the batch is abandoned (the caller reports what was judged so far)
        if timeouts >= 4 {
            break;
        }
        let end = (start + per_child.max(1)).min(n);
        let mut fds = [0i32; 2];
        unsafe {
            assert_eq!(libc::pipe(fds.as_mut_ptr()), 0);
            *sh.current = start as u64;
        }
        let pid = unsafe { libc::fork() };
        assert!(pid >= 0, "fork failed");
        if pid == 0 {
            unsafe { libc::close(fds[0]) };
            for i in start..end {
                unsafe { std::ptr::write_volatile(sh.current, i as u64) };
                set_progress(0);
                set_note(b"");
                let r = std::panic::catch_unwind(std::panic::AssertUnwindSafe(|| f(i)));
                let (bytes, stop) = match r {
                    Ok(b) => b,
                    Err(_) => unsafe { libc::_exit(101) },
                };
                let mut frame = Vec::with_capacity(bytes.len() + 8);
                frame.extend_from_slice(&(i as u32).to_le_bytes());
                frame.extend_from_slice(&(bytes.len() as u32).to_le_bytes());
                frame.extend_from_slice(&bytes);
                let mut off = 0;
                while off < frame.len() {
                    let w = unsafe { libc::write(fds[1], frame[off..].as_ptr() as *const libc::c_void, frame.len() - off) };
                    if w <= 0 {
                        unsafe { libc::_exit(102) };
                    }
                    off += w as usize;
                }
                if stop {
                    break;
                }
            }
            unsafe { libc::_exit(0) };
        }
        unsafe { libc::close(fds[1]) };
        // parent: read frames with a progress deadline
        let mut buf: Vec<u8> = Vec::new();
        let mut timed_out = false;
        let mut tmp = [0u8; 65536];
        loop {
            let mut pfd = libc::pollfd { fd: fds[0], events: libc::POLLIN, revents: 0 };
            let pr = unsafe { libc::poll(&mut pfd, 1, deadline_ms) };
            if pr == 0 {
                timed_out = true;
                unsafe { libc::kill(pid, libc::SIGKILL) };
                break;
            }
            if pr < 0 {
                continue;
            }
            let r = unsafe { libc::read(fds[0], tmp.as_mut_ptr() as *mut libc::c_void, tmp.len()) };
            if r <= 0 {
                break;
            }
            buf.extend_from_slice(&tmp[..r as usize]);
        }
        unsafe { libc::close(fds[0]) };
        let mut status = 0i32;
        unsafe { libc::waitpid(pid, &mut status, 0) };
        // decode complete frames
        let mut off = 0;
        let mut next = start;
        while off + 8 <= buf.len() {
            let idx = u32::from_le_bytes(buf[off..off + 4].try_into().unwrap()) as usize;
            let len = u32::from_le_bytes(buf[off + 4..off + 8].try_into().unwrap()) as usize;
            if off + 8 + len > buf.len() {
                break;
            }
            if idx != next {
                // a child whose heap is corrupted may write anything: treat it as having died in `next`
                break;
            }
            let payload = &buf[off + 8..off + 8 + len];
            // every engine reports JSON; a child with a corrupted heap may report garbage
            if serde_json::from_slice::<serde_json::Value>(payload).is_err() {
                break;
            }
            out.push(Outcome::Done(payload.to_vec()));
            next += 1;
            off += 8 + len;
        }
        let clean = !timed_out && libc::WIFEXITED(status) && libc::WEXITSTATUS(status) == 0;
        if next < end && !clean {
            // the child stopped inside case `next`
            let prog = unsafe { std::ptr::read_volatile(sh.current.add(1)) };
            unsafe {
                let base = sh.current.add(1) as *const u8;
                let n = (std::ptr::read_volatile(base.add(16) as *const u32) as usize).min(3000);
                let mut note = vec![0u8; n];
                std::ptr::copy_nonoverlapping(base.add(24), note.as_mut_ptr(), n);
                NOTES.lock().unwrap().push((next, note));
            }
            let o = if timed_out {
                timeouts += 1;
                Outcome::Timeout(prog)
            } else if libc::WIFSIGNALED(status) {
                Outcome::Signal(libc::WTERMSIG(status), prog)
            } else {
                Outcome::Exit(libc::WEXITSTATUS(status), prog)
            };
            out.push(o);
            next += 1;
        }
        start = next;
    }
    unsafe { libc::munmap(sh.current as *mut libc::c_void, 4096) };
    out
}
