//! Independent A32 / T32 decoder + abstract machine for redirection stubs (literal load plus
//! interworking branch and a few equivalents).  Shares no code with the emitter under verification.

#[derive(Clone, Debug, PartialEq, Eq)]
pub enum Stop {
    /// control left injector-written memory for `pc` in the given instruction-set state
    Left { pc: u32, thumb: bool },
    Unknown { pc: u32, thumb: bool, bytes: Vec<u8> },
    Fault { pc: u32, why: String },
    StepLimit,
}

#[derive(Clone, Debug)]
pub struct Run {
    pub stop: Stop,
    /// r0..r15 (r13 sp, r14 lr, r15 never stored)
    pub regs: [Option<u32>; 16],
    pub written: u16,
    pub read_initial: u16,
    /// addresses of literal words read
    pub literal_reads: Vec<u32>,
    pub steps: u32,
    pub trace: Vec<String>,
}

/// AAPCS: r12 (ip) is the only register a veneer may clobber that neither carries an argument
/// nor must be preserved; r0-r3 carry arguments, r4-r11/sp must be preserved, lr is the return address.
pub const SCRATCH_OK: u16 = 1 << 12;
/// registers the procedure-call standard requires a callee to preserve (r4-r11, sp) plus lr
pub const CALLEE_SAVED: u16 = 0x0FF0 | (1 << 13) | (1 << 14);

fn rn(r: u32) -> String {
    match r {
        13 => "sp".into(),
        14 => "lr".into(),
        15 => "pc".into(),
        n => format!("r{n}"),
    }
}

#[derive(Clone, Copy, Debug, PartialEq, Eq)]
pub enum Ins {
    /// ldr rt, [pc, #off] (off relative to Align(PC,4))
    LdrLit { rt: u32, off: i32, wide: bool },
    Bx { rm: u32 },
    Blx { rm: u32 },
    Mov { rd: u32, rm: u32 },
    Nop,
    B { off: i32 },
    Unknown,
}

pub fn decode_a32(w: u32) -> Ins {
    if w >> 28 != 0xE {
        return Ins::Unknown; // conditional or unconditional-space instruction
    }
    if w & 0x0F7F_0000 == 0x051F_0000 {
        let imm = (w & 0xFFF) as i32;
        let up = (w >> 23) & 1 == 1;
        return Ins::LdrLit { rt: (w >> 12) & 15, off: if up { imm } else { -imm }, wide: false };
    }
    if w & 0x0FFF_FFF0 == 0x012F_FF10 {
        return Ins::Bx { rm: w & 15 };
    }
    if w & 0x0FFF_FFF0 == 0x012F_FF30 {
        return Ins::Blx { rm: w & 15 };
    }
    if w & 0x0FFF_FFFF == 0x0320_F000 {
        return Ins::Nop;
    }
    if w & 0x0FFF_0FF0 == 0x01A0_0000 {
        return Ins::Mov { rd: (w >> 12) & 15, rm: w & 15 };
    }
    if w & 0x0F00_0000 == 0x0A00_0000 {
        let imm = ((w & 0x00FF_FFFF) << 8) as i32 >> 6; // sign-extend imm24, times 4
        return Ins::B { off: imm };
    }
    Ins::Unknown
}

/// Decode at a halfword; returns (instruction, length in bytes).
pub fn decode_t32(h1: u16, h2: Option<u16>) -> (Ins, u32) {
    let top = h1 >> 11;
    if top == 0b11101 || top == 0b11110 || top == 0b11111 {
        // 32-bit encoding
        let Some(h2) = h2 else { return (Ins::Unknown, 2) };
        if h1 & 0xFF7F == 0xF85F {
            let up = (h1 >> 7) & 1 == 1;
            let imm = (h2 & 0xFFF) as i32;
            return (Ins::LdrLit { rt: (h2 >> 12) as u32, off: if up { imm } else { -imm }, wide: true }, 4);
        }
        if h1 == 0xF3AF && h2 == 0x8000 {
            return (Ins::Nop, 4);
        }
        return (Ins::Unknown, 4);
    }
    if h1 & 0xF800 == 0x4800 {
        return (Ins::LdrLit { rt: ((h1 >> 8) & 7) as u32, off: ((h1 & 0xFF) as i32) * 4, wide: false }, 2);
    }
    if h1 & 0xFF87 == 0x4700 {
        return (Ins::Bx { rm: ((h1 >> 3) & 15) as u32 }, 2);
    }
    if h1 & 0xFF87 == 0x4780 {
        return (Ins::Blx { rm: ((h1 >> 3) & 15) as u32 }, 2);
    }
    if h1 == 0xBF00 {
        return (Ins::Nop, 2);
    }
    if h1 & 0xFF00 == 0x4600 {
        let rd = ((h1 & 7) | ((h1 >> 4) & 8)) as u32;
        return (Ins::Mov { rd, rm: ((h1 >> 3) & 15) as u32 }, 2);
    }
    if h1 & 0xF800 == 0xE000 {
        let imm = (((h1 & 0x7FF) as i32) << 21) >> 20; // sign-extend imm11, times 2
        return (Ins::B { off: imm }, 2);
    }
    (Ins::Unknown, 2)
}

/// llvm-mc's default text for the instruction, or None if unknown to this decoder.
pub fn render(ins: Ins, thumb: bool) -> Option<String> {
    match ins {
        Ins::LdrLit { rt, off, wide } => {
            let m = if wide { "ldr.w" } else { "ldr" };
            let o = if off == 0 && !thumb { "#-0".to_string() } else { format!("#{off}") };
            Some(format!("{m}\t{}, [pc, {o}]", rn(rt)))
        }
        Ins::Bx { rm } => Some(format!("bx\t{}", rn(rm))),
        Ins::Blx { rm } => Some(format!("blx\t{}", rn(rm))),
        Ins::Mov { rd, rm } => Some(format!("mov\t{}, {}", rn(rd), rn(rm))),
        Ins::Nop => Some("nop".into()),
        Ins::B { .. } | Ins::Unknown => None,
    }
}

/// Execute from `entry` (bit 0 of `entry` selects Thumb state, as for a function pointer).
pub fn run(entry: u32, mem: &dyn Fn(u32, usize) -> Option<Vec<u8>>, ours: &dyn Fn(u32) -> bool, max_steps: u32) -> Run {
    let mut r = Run { stop: Stop::StepLimit, regs: [None; 16], written: 0, read_initial: 0, literal_reads: Vec::new(), steps: 0, trace: Vec::new() };
    let mut thumb = entry & 1 == 1;
    let mut pc = entry & !1;
    loop {
        if r.steps > 0 && !ours(pc) {
            r.stop = Stop::Left { pc, thumb };
            return r;
        }
        if r.steps >= max_steps {
            return r;
        }
        r.steps += 1;
        let (ins, len) = if thumb {
            let Some(b) = mem(pc, 2) else {
                r.stop = Stop::Fault { pc, why: "instruction fetch from unmapped memory".into() };
                return r;
            };
            let h1 = u16::from_le_bytes([b[0], b[1]]);
            let h2 = mem(pc + 2, 2).map(|b| u16::from_le_bytes([b[0], b[1]]));
            decode_t32(h1, h2)
        } else {
            if pc % 4 != 0 {
                r.stop = Stop::Fault { pc, why: "misaligned pc in ARM state".into() };
                return r;
            }
            let Some(b) = mem(pc, 4) else {
                r.stop = Stop::Fault { pc, why: "instruction fetch from unmapped memory".into() };
                return r;
            };
            (decode_a32(u32::from_le_bytes(b.try_into().unwrap())), 4)
        };
        r.trace.push(render(ins, thumb).unwrap_or_else(|| format!("{ins:?}")));
        // value of PC as an operand
        let pc_read = pc + if thumb { 4 } else { 8 };
        match ins {
            Ins::Nop => pc += len,
            Ins::Mov { rd, rm } => {
                if rd == rm {
                    pc += len; // mov r8, r8: the architectural Thumb-1 no-op
                    continue;
                }
                if rm == 15 {
                    r.regs[rd as usize] = Some(pc_read);
                } else {
                    if r.regs[rm as usize].is_none() {
                        r.read_initial |= 1 << rm;
                    }
                    r.regs[rd as usize] = r.regs[rm as usize];
                }
                if rd == 15 {
                    r.stop = Stop::Fault { pc, why: "mov pc, rm".into() };
                    return r;
                }
                r.written |= 1 << rd;
                pc += len;
            }
            Ins::LdrLit { rt, off, .. } => {
                let a = (pc_read & !3).wrapping_add(off as u32);
                let Some(b) = mem(a, 4) else {
                    r.stop = Stop::Fault { pc, why: format!("literal load from unmapped {a:#x}") };
                    return r;
                };
                let v = u32::from_le_bytes(b.try_into().unwrap());
                r.literal_reads.push(a);
                if rt == 15 {
                    // ldr pc, [...]: interworking branch
                    thumb = v & 1 == 1;
                    pc = v & !1;
                } else {
                    r.regs[rt as usize] = Some(v);
                    r.written |= 1 << rt;
                    pc += len;
                }
            }
            Ins::Bx { rm } | Ins::Blx { rm } => {
                if let Ins::Blx { .. } = ins {
                    r.regs[14] = Some((pc + len) | thumb as u32);
                    r.written |= 1 << 14;
                }
                match r.regs[rm as usize] {
                    Some(v) => {
                        thumb = v & 1 == 1;
                        pc = v & !1;
                        if !thumb && pc % 4 != 0 {
                            r.stop = Stop::Fault { pc, why: "bx to a misaligned ARM address".into() };
                            return r;
                        }
                    }
                    None => {
                        r.read_initial |= 1 << rm;
                        r.stop = Stop::Fault { pc, why: format!("bx {}: the register holds the caller's value", rn(rm)) };
                        return r;
                    }
                }
            }
            Ins::B { off } => pc = pc_read.wrapping_add(off as u32),
            Ins::Unknown => {
                let n = len as usize;
                r.stop = Stop::Unknown { pc, thumb, bytes: mem(pc, n).unwrap_or_default() };
                return r;
            }
        }
    }
}
