//! Process-level helpers: deterministic address-space layout, /proc/self/maps.
use std::ffi::CString;

/// Re-execute the current program with address-space randomisation disabled (once), so that
/// addresses — and therefore logs — are the same on every run.
pub fn ensure_no_aslr() {
    if std::env::var_os("VKIT_NOASLR").is_some() {
        return;
    }
    unsafe {
        const ADDR_NO_RANDOMIZE: libc::c_ulong = 0x0040000;
        let cur = libc::personality(0xffff_ffff);
        if cur < 0 || libc::personality(cur as libc::c_ulong | ADDR_NO_RANDOMIZE) < 0 {
            eprintln!("vkit: personality(ADDR_NO_RANDOMIZE) unavailable; continuing with ASLR");
            return;
        }
        std::env::set_var("VKIT_NOASLR", "1");
        let exe = CString::new("/proc/self/exe").unwrap();
        let args: Vec<CString> = std::env::args().map(|a| CString::new(a).unwrap()).collect();
        let mut argv: Vec<*const libc::c_char> = args.iter().map(|a| a.as_ptr()).collect();
        argv.push(std::ptr::null());
        // environment: current one plus the marker
        let envs: Vec<CString> = std::env::vars()
            .map(|(k, v)| CString::new(format!("{k}={v}")).unwrap())
            .collect();
        let mut envp: Vec<*const libc::c_char> = envs.iter().map(|a| a.as_ptr()).collect();
        envp.push(std::ptr::null());
        libc::execve(exe.as_ptr(), argv.as_ptr(), envp.as_ptr());
        eprintln!("vkit: execve failed; continuing with ASLR");
    }
}

#[derive(Debug, Clone)]
pub struct Mapping {
    pub start: u64,
    pub end: u64,
    pub perms: String,
    pub path: String,
}

pub fn maps() -> Vec<Mapping> {
    let s = std::fs::read_to_string("/proc/self/maps").unwrap_or_default();
    let mut v = Vec::new();
    for line in s.lines() {
        let mut it = line.split_whitespace();
        let range = it.next().unwrap_or("");
        let perms = it.next().unwrap_or("").to_string();
        let _off = it.next();
        let _dev = it.next();
        let _ino = it.next();
        let path = it.next().unwrap_or("").to_string();
        if let Some((a, b)) = range.split_once('-') {
            if let (Ok(a), Ok(b)) = (u64::from_str_radix(a, 16), u64::from_str_radix(b, 16)) {
                v.push(Mapping { start: a, end: b, perms, path });
            }
        }
    }
    v
}

/// Number of anonymous pages mapped rwx (trampolines are the only such pages in the harness
/// processes; neighbouring trampoline pages merge into one VMA, hence pages not VMAs).
pub fn rwx_anon_pages() -> u64 {
    maps()
        .iter()
        .filter(|m| m.perms.starts_with("rwx") && m.path.is_empty())
        .map(|m| (m.end - m.start) / 4096)
        .sum()
}
