//! Independent AArch64 decoder + abstract machine for redirection stubs.  Shares no code with
//! the bit-array emitters under verification.  Register values are either *initial* (the
//! caller's, unknown) or concrete.

#[derive(Clone, Debug, PartialEq, Eq)]
pub enum Stop {
    Left { pc: u64 },
    Returned,
    Unknown { pc: u64, word: u32 },
    Fault { pc: u64, why: String },
    StepLimit,
}

#[derive(Clone, Debug)]
pub struct Run {
    pub stop: Stop,
    /// x0..x30 (index 31 unused)
    pub regs: [Option<u64>; 32],
    pub written: u32,
    pub read_initial: u32,
    pub sp_written: bool,
    pub mem_reads: Vec<u64>,
    pub steps: u32,
    pub trace: Vec<String>,
    /// the instruction words that were actually executed (literal data in the code is not among them)
    pub exec_words: Vec<u32>,
}

/// x9..x17: caller-saved temporaries that carry no argument (x8 is the indirect-result register,
/// x18 the platform register).
pub const SCRATCH_OK: u32 = 0x0003_FE00;

fn sext(v: u64, bits: u32) -> i64 {
    let sh = 64 - bits;
    ((v << sh) as i64) >> sh
}

/// Text of one instruction word in llvm-mc's default syntax (for the cross-check), or None when
/// this decoder does not know the word.
pub fn render(word: u32) -> Option<String> {
    match decode(word) {
        Ins::B { off } => Some(format!("b\t#{off}")),
        Ins::Bl { off } => Some(format!("bl\t#{off}")),
        Ins::Br { rn } => Some(format!("br\tx{rn}")),
        Ins::Ret { rn } => Some(if rn == 30 { "ret".to_string() } else { format!("ret\tx{rn}") }),
        Ins::Nop => Some("nop".into()),
        Ins::MovWide { opc: 2, sf, hw, imm16, rd } => {
            let r = if sf { 'x' } else { 'w' };
            if imm16 != 0 || hw == 0 {
                let v = (imm16 as u64) << (16 * hw);
                let sv = if sf { v as i64 } else { v as u32 as i32 as i64 };
                Some(format!("mov\t{r}{rd}, #{sv}"))
            } else {
                Some(format!("movz\t{r}{rd}, #0, lsl #{}", 16 * hw))
            }
        }
        Ins::MovWide { opc: 3, sf, hw, imm16, rd } => {
            let r = if sf { 'x' } else { 'w' };
            if hw == 0 {
                Some(format!("movk\t{r}{rd}, #{imm16}"))
            } else {
                Some(format!("movk\t{r}{rd}, #{imm16}, lsl #{}", 16 * hw))
            }
        }
        Ins::MovWide { .. } => None, // MOVN: alias rules not reproduced; not cross-checked
        Ins::Adrp { rd, off } => Some(format!("adrp\tx{rd}, #{off}")),
        Ins::AddImm { rd, rn, imm, shift12 } => {
            let n = |r: u32| if r == 31 { "sp".to_string() } else { format!("x{r}") };
            if rd == 31 || rn == 31 {
                if imm == 0 && !shift12 {
                    return Some(format!("mov\t{}, {}", n(rd), n(rn)));
                }
            }
            if shift12 {
                Some(format!("add\t{}, {}, #{imm}, lsl #12", n(rd), n(rn)))
            } else {
                Some(format!("add\t{}, {}, #{imm}", n(rd), n(rn)))
            }
        }
        Ins::LdrLit { rt, off } => Some(format!("ldr\tx{rt}, #{off}")),
        Ins::MovReg { rd, rm } => Some(format!("mov\tx{rd}, x{rm}")),
        Ins::Barrier | Ins::Hint | Ins::Unknown => None,
    }
}

#[derive(Clone, Copy, Debug, PartialEq, Eq)]
pub enum Ins {
    B { off: i64 },
    Bl { off: i64 },
    Br { rn: u32 },
    Ret { rn: u32 },
    Nop,
    MovWide { opc: u32, sf: bool, hw: u32, imm16: u32, rd: u32 },
    Adrp { rd: u32, off: i64 },
    AddImm { rd: u32, rn: u32, imm: u32, shift12: bool },
    LdrLit { rt: u32, off: i64 },
    MovReg { rd: u32, rm: u32 },
    Barrier,
    Hint,
    Unknown,
}

pub fn decode(w: u32) -> Ins {
    if w == 0xD503_201F {
        return Ins::Nop;
    }
    if w & 0xFC00_0000 == 0x1400_0000 {
        return Ins::B { off: sext((w & 0x03FF_FFFF) as u64, 26) * 4 };
    }
    if w & 0xFC00_0000 == 0x9400_0000 {
        return Ins::Bl { off: sext((w & 0x03FF_FFFF) as u64, 26) * 4 };
    }
    if w & 0xFFFF_FC1F == 0xD61F_0000 {
        return Ins::Br { rn: (w >> 5) & 31 };
    }
    if w & 0xFFFF_FC1F == 0xD65F_0000 {
        return Ins::Ret { rn: (w >> 5) & 31 };
    }
    if w & 0x1F80_0000 == 0x1280_0000 {
        let sf = w >> 31 == 1;
        let opc = (w >> 29) & 3;
        let hw = (w >> 21) & 3;
        if opc == 1 || (!sf && hw > 1) {
            return Ins::Unknown;
        }
        return Ins::MovWide { opc, sf, hw, imm16: (w >> 5) & 0xFFFF, rd: w & 31 };
    }
    if w & 0x9F00_0000 == 0x9000_0000 {
        let immlo = ((w >> 29) & 3) as u64;
        let immhi = ((w >> 5) & 0x7FFFF) as u64;
        return Ins::Adrp { rd: w & 31, off: sext((immhi << 2) | immlo, 21) * 4096 };
    }
    if w & 0xFF80_0000 == 0x9100_0000 {
        return Ins::AddImm { rd: w & 31, rn: (w >> 5) & 31, imm: (w >> 10) & 0xFFF, shift12: (w >> 22) & 1 == 1 };
    }
    if w & 0xFF00_0000 == 0x5800_0000 {
        return Ins::LdrLit { rt: w & 31, off: sext(((w >> 5) & 0x7FFFF) as u64, 19) * 4 };
    }
    if w & 0xFFE0_FFE0 == 0xAA00_03E0 {
        return Ins::MovReg { rd: w & 31, rm: (w >> 16) & 31 };
    }
    if w == 0xD503_3F9F || w == 0xD503_3FDF || w & 0xFFFF_F0FF == 0xD503_309F || w & 0xFFFF_F0FF == 0xD503_30BF {
        return Ins::Barrier;
    }
    if w & 0xFFFF_F01F == 0xD503_201F {
        return Ins::Hint;
    }
    Ins::Unknown
}

/// Execute from `entry`; `mem` reads the post-installation image, `ours` tells injector-written
/// memory from the rest.
pub fn run(entry: u64, mem: &dyn Fn(u64, usize) -> Option<Vec<u8>>, ours: &dyn Fn(u64) -> bool, max_steps: u32) -> Run {
    run_to(entry, mem, ours, max_steps, None)
}

/// As [`run`], additionally stopping as soon as control is transferred to `goal`.
pub fn run_to(entry: u64, mem: &dyn Fn(u64, usize) -> Option<Vec<u8>>, ours: &dyn Fn(u64) -> bool, max_steps: u32, goal: Option<u64>) -> Run {
    let mut r = Run { stop: Stop::StepLimit, regs: [None; 32], written: 0, read_initial: 0, sp_written: false, mem_reads: Vec::new(), steps: 0, trace: Vec::new(), exec_words: Vec::new() };
    let mut pc = entry;
    loop {
        if r.steps > 0 && (!ours(pc) || goal == Some(pc)) {
            r.stop = Stop::Left { pc };
            return r;
        }
        if r.steps >= max_steps {
            return r;
        }
        r.steps += 1;
        if pc % 4 != 0 {
            r.stop = Stop::Fault { pc, why: "misaligned pc".into() };
            return r;
        }
        let w = match mem(pc, 4) {
            Some(b) => u32::from_le_bytes(b.try_into().unwrap()),
            None => {
                r.stop = Stop::Fault { pc, why: "instruction fetch from unmapped memory".into() };
                return r;
            }
        };
        let ins = decode(w);
        r.exec_words.push(w);
        r.trace.push(render(w).unwrap_or_else(|| format!(".word {w:#010x}")));
        match ins {
            Ins::Nop | Ins::Barrier | Ins::Hint => pc += 4,
            Ins::B { off } => pc = pc.wrapping_add(off as u64),
            Ins::Bl { off } => {
                r.regs[30] = Some(pc + 4);
                r.written |= 1 << 30;
                pc = pc.wrapping_add(off as u64);
            }
            Ins::Br { rn } => match r.regs[rn as usize] {
                Some(v) => pc = v,
                None => {
                    r.read_initial |= 1 << rn;
                    r.stop = Stop::Fault { pc, why: format!("br x{rn}: the register holds the caller's value") };
                    return r;
                }
            },
            Ins::Ret { rn } => match r.regs[rn as usize] {
                Some(v) => pc = v,
                None => {
                    if rn == 30 {
                        r.stop = Stop::Returned;
                    } else {
                        r.read_initial |= 1 << rn;
                        r.stop = Stop::Fault { pc, why: format!("ret x{rn}: the register holds the caller's value") };
                    }
                    return r;
                }
            },
            Ins::MovWide { opc, sf, hw, imm16, rd } => {
                if rd == 31 {
                    pc += 4; // writes xzr: no effect
                    continue;
                }
                let sh = 16 * hw;
                let v = match opc {
                    2 => (imm16 as u64) << sh,
                    0 => !((imm16 as u64) << sh),
                    _ => match r.regs[rd as usize] {
                        Some(old) => (old & !(0xFFFFu64 << sh)) | ((imm16 as u64) << sh),
                        None => {
                            // movk into a register that still holds the caller's value: the result
                            // depends on the caller; remember that the initial value was read
                            r.read_initial |= 1 << rd;
                            r.written |= 1 << rd;
                            pc += 4;
                            continue;
                        }
                    },
                };
                r.regs[rd as usize] = Some(if sf { v } else { v & 0xFFFF_FFFF });
                r.written |= 1 << rd;
                pc += 4;
            }
            Ins::Adrp { rd, off } => {
                if rd != 31 {
                    r.regs[rd as usize] = Some((pc & !0xFFF).wrapping_add(off as u64));
                    r.written |= 1 << rd;
                }
                pc += 4;
            }
            Ins::AddImm { rd, rn, imm, shift12 } => {
                if rd == 31 || rn == 31 {
                    r.sp_written |= rd == 31;
                    r.stop = Stop::Fault { pc, why: "add involving sp".into() };
                    return r;
                }
                match r.regs[rn as usize] {
                    Some(v) => {
                        let i = if shift12 { (imm as u64) << 12 } else { imm as u64 };
                        r.regs[rd as usize] = Some(v.wrapping_add(i));
                        r.written |= 1 << rd;
                    }
                    None => {
                        r.read_initial |= 1 << rn;
                        r.written |= 1 << rd;
                        r.regs[rd as usize] = None;
                    }
                }
                pc += 4;
            }
            Ins::LdrLit { rt, off } => {
                let a = pc.wrapping_add(off as u64);
                match mem(a, 8) {
                    Some(b) => {
                        r.mem_reads.push(a);
                        if rt != 31 {
                            r.regs[rt as usize] = Some(u64::from_le_bytes(b.try_into().unwrap()));
                            r.written |= 1 << rt;
                        }
                    }
                    None => {
                        r.stop = Stop::Fault { pc, why: format!("ldr literal from unmapped {a:#x}") };
                        return r;
                    }
                }
                pc += 4;
            }
            Ins::MovReg { rd, rm } => {
                if rm != 31 && r.regs[rm as usize].is_none() {
                    r.read_initial |= 1 << rm;
                }
                if rd != 31 {
                    r.regs[rd as usize] = if rm == 31 { Some(0) } else { r.regs[rm as usize] };
                    r.written |= 1 << rd;
                }
                pc += 4;
            }
            Ins::Unknown => {
                r.stop = Stop::Unknown { pc, word: w };
                return r;
            }
        }
    }
}
