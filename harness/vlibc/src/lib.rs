//! `vlibc`: the dependency that the mounted injectorpp sources see under the name `libc`.
//!
//! It is the real `libc` crate re-exported, except for the four functions that are the crate's
//! whole operating-system surface (`mmap`, `munmap`, `mprotect`, `sysconf`) and the platform
//! cache-flush primitive `__clear_cache`, which are owned by [`venv`]: every call is logged, can
//! be answered from a small Linux virtual-memory model, can be made to fail, and announces a
//! scheduling point to the schedule explorer when one is registered.
#![allow(clippy::missing_safety_doc)]

pub use real_libc::*;

/// The unmodified libc for harness code.
pub mod real {
    pub use real_libc::*;
}

pub mod venv;

pub use venv::{mmap, mprotect, munmap, sysconf};
