//! `vlibc`: the dependency that the mounted injectorpp sources see under the name `libc`.
//!
//! It is the real `libc` crate re-exported, except for the four functions that are the crate's
//! whole operating-system surface (`mmap`, `munmap`, `mprotect`, `sysconf`) and the platform
//! cache-flush primitive `__clear_cache`, which are owned by [`venv`]: every call is logged, can
//! be answered from a small Linux virtual-memory model, can be made to fail, and announces a
//! scheduling point to the schedule explorer when one is registered.
#![allow(clippy::missing_safety_doc)]

pub use real_libc::*;

/// The unmodified libc for harness code.
pub mod real {
    pub use real_libc::*;
}

pub mod venv;

pub use venv::{mmap, mprotect, munmap, sysconf};

/// The cache-flush primitive as a *symbol*: wherever the crate under test declares
/// `extern "C" { fn __clear_cache(..) }` (today in linuxapi.rs, which the mount step replaces by a
/// re-export of [`venv::__clear_cache`]), the declaration resolves to this logging implementation
/// rather than to the compiler runtime's, so the flush log does not depend on that file's name.
///
/// # Safety
/// as for the C function: `[start, end)` is an address range.
mod clear_cache_symbol {
#[no_mangle]
    pub unsafe extern "C" fn __clear_cache(start: *mut std::ffi::c_char, end: *mut std::ffi::c_char) {
        crate::venv::__clear_cache(start as *mut u8, end as *mut u8)
    }
}
