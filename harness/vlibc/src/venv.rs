//! The environment owned by the explorers: OS answers, OS-call log, fault injection.
//!
//! Two modes.  *Pass-through*: `mmap` is answered by the real kernel.  *Model*: `mmap` is
//! answered by a small model of Linux's hinted anonymous `mmap` (see `Model`), and every
//! placement the model grants is backed by a real page at the same address so that the crate's
//! raw-pointer writes land in real memory.  In both modes the set of mappings handed to the crate
//! and not yet given back (`owned`) is tracked, `munmap` of anything else is refused and recorded
//! as a protocol error (the real kernel would silently unmap foreign memory), and every call is
//! appended to the log.
use real_libc as rl;
use std::collections::{BTreeMap, VecDeque};
use std::sync::atomic::{AtomicUsize, Ordering};
use std::sync::Mutex;

#[derive(Clone, Copy, PartialEq, Eq, Debug)]
pub enum Kind {
    Mmap,
    Munmap,
    Mprotect,
    Sysconf,
    Flush,
}

#[derive(Clone, Debug)]
pub struct Call {
    pub kind: Kind,
    pub a: u64,
    pub b: u64,
    pub c: u64,
    pub ret: i64,
    /// for `Flush`: the content of [a, b) at call time (None when unreadable or absurd)
    pub snap: Option<Vec<u8>>,
    /// content of every watched region, then of the first 64 bytes of every owned mapping (in
    /// address order), at the time of the call (before it takes effect); empty unless watching
    pub watch: Vec<Vec<u8>>,
}

#[derive(Clone, Debug)]
pub enum Layout {
    /// every page that is not owned is free
    Empty,
    /// every page is occupied
    Full,
    /// every page is occupied except these (absolute page addresses)
    FullExcept(Vec<u64>),
}

#[derive(Clone, Copy, Debug, PartialEq, Eq)]
pub enum Answer {
    Default,
    Fail,
    /// the kernel places the mapping here (a legal answer to any hint it cannot or will not honour)
    At(u64),
}

#[derive(Clone, Debug)]
pub struct Model {
    pub page_size: u64,
    pub layout: Layout,
    /// back placements outside every window with real memory too
    pub back_far: bool,
    /// answers for successive `mmap` calls, front first; `Default` once exhausted
    pub script: VecDeque<Answer>,
    /// where "elsewhere" placements go (must be far outside every window of the scenario)
    pub far_next: u64,
    /// lowest address a hint can be honoured at (Linux: max(mmap_min_addr, 0x10000) for hints)
    pub min_hint: u64,
    /// ranges [start, end) the harness keeps mapped rwx itself: a placement inside one needs no
    /// backing of its own (its first bytes are cleared instead, as a fresh page would be)
    pub arenas: Vec<(u64, u64)>,
    /// ranges [start, end) occupied by somebody else whatever the layout says (the scenario's
    /// own target and fake pages)
    pub occupied: Vec<(u64, u64)>,
}

impl Model {
    pub fn new(page_size: u64) -> Model {
        Model {
            page_size,
            layout: Layout::Empty,
            back_far: true,
            script: VecDeque::new(),
            far_next: 0x6000_0000_0000,
            min_hint: 0x1_0000,
            arenas: Vec::new(),
            occupied: Vec::new(),
        }
    }
}

pub struct Env {
    pub model: Option<Model>,
    pub log_enabled: bool,
    pub log: Vec<Call>,
    /// start -> (byte length rounded to pages, really backed?)
    pub owned: BTreeMap<u64, (u64, bool)>,
    pub errors: Vec<String>,
    pub n_mmap: u64,
    pub n_munmap: u64,
    pub n_mprotect: u64,
    pub n_flush: u64,
    /// all `mmap` calls with index >= this fail (address space exhausted)
    pub mmap_fail_from: Option<u64>,
    /// the `mprotect` call with this index fails
    pub mprotect_fail_at: Option<u64>,
    /// every `mprotect` whose range overlaps [start, end) fails (a page that refuses to become writable)
    pub mprotect_fail_range: Option<(u64, u64)>,
    /// page size answered in pass-through mode (None = the real one)
    pub page_size_override: Option<u64>,
    /// regions (address, length) snapshotted at every logged call
    pub watch: Vec<(u64, u64)>,
    /// owned placements that live inside a harness arena
    pub arena_owned: std::collections::BTreeSet<u64>,
}

impl Env {
    const fn new() -> Env {
        Env {
            model: None,
            log_enabled: true,
            log: Vec::new(),
            owned: BTreeMap::new(),
            errors: Vec::new(),
            n_mmap: 0,
            n_munmap: 0,
            n_mprotect: 0,
            n_flush: 0,
            mmap_fail_from: None,
            mprotect_fail_at: None,
            mprotect_fail_range: None,
            page_size_override: None,
            watch: Vec::new(),
            arena_owned: std::collections::BTreeSet::new(),
        }
    }

    /// Snapshot of the watched regions and of the head of every owned, backed mapping.
    pub fn watch_snapshot(&self) -> Vec<Vec<u8>> {
        if self.watch.is_empty() {
            return Vec::new();
        }
        let mut v = Vec::with_capacity(self.watch.len() + self.owned.len());
        // watched regions are mapped by the harness and owned+backed pages by us: plain reads
        for &(a, l) in &self.watch {
            let mut buf = vec![0u8; l as usize];
            unsafe { std::ptr::copy_nonoverlapping(a as *const u8, buf.as_mut_ptr(), l as usize) };
            v.push(buf);
        }
        for (&a, &(_, backed)) in &self.owned {
            let mut rec = vec![0u8; 8 + if backed { 64 } else { 0 }];
            rec[..8].copy_from_slice(&a.to_le_bytes());
            if backed {
                unsafe { std::ptr::copy_nonoverlapping(a as *const u8, rec[8..].as_mut_ptr(), 64) };
            }
            v.push(rec);
        }
        v
    }
}

static ENV: Mutex<Env> = Mutex::new(Env::new());
static SCHED_HOOK: AtomicUsize = AtomicUsize::new(0);

/// Run `f` with exclusive access to the environment.
pub fn with<R>(f: impl FnOnce(&mut Env) -> R) -> R {
    let mut g = match ENV.lock() {
        Ok(g) => g,
        Err(p) => p.into_inner(),
    };
    f(&mut g)
}

/// Reset counters, log, faults and model; `owned` is kept (it describes real memory).
pub fn reset() {
    with(|e| {
        e.model = None;
        e.log.clear();
        e.errors.clear();
        e.n_mmap = 0;
        e.n_munmap = 0;
        e.n_mprotect = 0;
        e.n_flush = 0;
        e.mmap_fail_from = None;
        e.mprotect_fail_at = None;
        e.mprotect_fail_range = None;
        e.page_size_override = None;
        e.watch.clear();
        e.log_enabled = true;
    })
}

pub fn take_log() -> Vec<Call> {
    with(|e| std::mem::take(&mut e.log))
}

/// Register the schedule explorer's hook: called (outside the environment lock) before every OS
/// call of the crate.
pub fn set_sched_hook(h: Option<fn(&'static str)>) {
    SCHED_HOOK.store(h.map(|f| f as usize).unwrap_or(0), Ordering::SeqCst);
}

fn sched_point(what: &'static str) {
    let h = SCHED_HOOK.load(Ordering::SeqCst);
    if h != 0 {
        let f: fn(&'static str) = unsafe { std::mem::transmute(h) };
        f(what);
    }
}

fn real_page() -> u64 {
    unsafe { rl::sysconf(rl::_SC_PAGESIZE) as u64 }
}

fn round_up(x: u64, p: u64) -> u64 {
    x.div_ceil(p) * p
}

/// Read `len` bytes at `addr` of this process without faulting.
pub fn safe_read(addr: u64, len: usize) -> Option<Vec<u8>> {
    if len == 0 {
        return Some(Vec::new());
    }
    let mut buf = vec![0u8; len];
    let local = rl::iovec { iov_base: buf.as_mut_ptr() as *mut rl::c_void, iov_len: len };
    let remote = rl::iovec { iov_base: addr as *mut rl::c_void, iov_len: len };
    let n = unsafe { rl::process_vm_readv(rl::getpid(), &local, 1, &remote, 1, 0) };
    if n == len as isize {
        Some(buf)
    } else {
        None
    }
}

fn model_is_free(e: &Env, m: &Model, page: u64, len: u64) -> bool {
    // overlaps an owned mapping?
    if let Some((&s, &(l, _))) = e.owned.range(..page + len).next_back() {
        if s + l > page {
            return false;
        }
    }
    if m.occupied.iter().any(|&(s, t)| page < t && page + len > s) {
        return false;
    }
    match &m.layout {
        Layout::Empty => true,
        Layout::Full => false,
        Layout::FullExcept(free) => {
            let mut p = page;
            while p < page + len {
                if !free.contains(&p) {
                    return false;
                }
                p += m.page_size;
            }
            true
        }
    }
}

unsafe fn real_map_fixed(addr: u64, len: u64) -> bool {
    let p = rl::mmap(
        addr as *mut rl::c_void,
        len as usize,
        rl::PROT_READ | rl::PROT_WRITE | rl::PROT_EXEC,
        rl::MAP_PRIVATE | rl::MAP_ANONYMOUS | rl::MAP_FIXED_NOREPLACE,
        -1,
        0,
    );
    if p == rl::MAP_FAILED {
        return false;
    }
    if p as u64 != addr {
        rl::munmap(p, len as usize);
        return false;
    }
    true
}

pub unsafe extern "C" fn mmap(
    addr: *mut rl::c_void,
    len: rl::size_t,
    prot: rl::c_int,
    flags: rl::c_int,
    fd: rl::c_int,
    off: rl::off_t,
) -> *mut rl::c_void {
    sched_point("mmap");
    with(|e| {
        let w0 = if e.log_enabled { e.watch_snapshot() } else { Vec::new() };
        let idx = e.n_mmap;
        e.n_mmap += 1;
        let hint = addr as u64;
        let mut ret: u64 = u64::MAX; // MAP_FAILED
        let forced_fail = e.mmap_fail_from.map(|n| idx >= n).unwrap_or(false);
        if len == 0 || forced_fail {
            // EINVAL / ENOMEM
        } else if let Some(mut m) = e.model.take() {
            let ps = m.page_size;
            let rlen = round_up(len as u64, ps);
            let ans = m.script.pop_front().unwrap_or(Answer::Default);
            let mut place: Option<(u64, bool)> = None; // (address, far?)
            match ans {
                Answer::Fail => {}
                Answer::At(p) => {
                    if p % ps != 0 {
                        e.errors.push(format!("machinery: scripted answer {p:#x} not page aligned"));
                    } else {
                        place = Some((p, false));
                    }
                }
                Answer::Default => {
                    let mut page = hint / ps * ps; // an unaligned hint is rounded down (probed on 6.18)
                    if hint != 0 && page < m.min_hint {
                        page = m.min_hint / ps * ps;
                    }
                    let noreplace = flags & rl::MAP_FIXED_NOREPLACE != 0;
                    if hint != 0 && model_is_free(e, &m, page, rlen) {
                        place = Some((page, false));
                    } else if noreplace {
                        // MAP_FIXED_NOREPLACE: EEXIST instead of a placement elsewhere
                    } else {
                        let p = m.far_next;
                        m.far_next += round_up(rlen, 0x1_0000).max(0x1_0000);
                        place = Some((p, true));
                    }
                }
            }
            if let Some((p, far)) = place {
                let in_arena = m.arenas.iter().any(|&(s, t)| p >= s && p + rlen <= t);
                let back = !far || m.back_far;
                let ok = if in_arena {
                    std::ptr::write_bytes(p as *mut u8, 0, 64);
                    true
                } else if back {
                    real_map_fixed(p, rlen)
                } else {
                    true
                };
                if ok {
                    e.owned.insert(p, (rlen, (back || in_arena) && !(in_arena && false)));
                    if in_arena {
                        e.arena_owned.insert(p);
                    }
                    ret = p;
                } else {
                    e.errors.push(format!(
                        "machinery: model granted {p:#x}+{rlen:#x} but the real kernel refused to back it"
                    ));
                }
            }
            e.model = Some(m);
        } else {
            let p = rl::mmap(addr, len, prot, flags, fd, off);
            if p != rl::MAP_FAILED {
                let rlen = round_up(len as u64, real_page());
                e.owned.insert(p as u64, (rlen, true));
                ret = p as u64;
            }
        }
        if e.log_enabled {
            e.log.push(Call { kind: Kind::Mmap, a: hint, b: len as u64, c: prot as u64, ret: ret as i64, snap: None, watch: w0 });
        }
        ret as *mut rl::c_void
    })
}

pub unsafe extern "C" fn munmap(addr: *mut rl::c_void, len: rl::size_t) -> rl::c_int {
    sched_point("munmap");
    with(|e| {
        let w0 = if e.log_enabled { e.watch_snapshot() } else { Vec::new() };
        e.n_munmap += 1;
        let a = addr as u64;
        let ps = e.model.as_ref().map(|m| m.page_size).unwrap_or_else(real_page);
        let mut ret = -1;
        if len == 0 {
            e.errors.push(format!("munmap({a:#x}, 0): zero length (EINVAL on Linux, nothing is released)"));
        } else if a % ps != 0 {
            e.errors.push(format!("munmap({a:#x}, {len}): unaligned address (EINVAL on Linux)"));
        } else {
            let rlen = round_up(len as u64, ps);
            match e.owned.get(&a).copied() {
                Some((olen, backed)) if olen == rlen => {
                    e.owned.remove(&a);
                    if e.arena_owned.remove(&a) {
                        // stays mapped by the harness
                    } else if backed {
                        rl::munmap(addr, rlen as usize);
                    }
                    ret = 0;
                }
                Some((olen, _)) => {
                    e.errors.push(format!(
                        "munmap({a:#x}, {len}): covers {rlen:#x} bytes of an injector mapping of {olen:#x} bytes"
                    ));
                }
                None => {
                    e.errors.push(format!(
                        "munmap({a:#x}, {len}): not a live mapping the injector obtained from mmap (double or foreign unmap)"
                    ));
                }
            }
        }
        if e.log_enabled {
            e.log.push(Call { kind: Kind::Munmap, a, b: len as u64, c: 0, ret: ret as i64, snap: None, watch: w0 });
        }
        ret
    })
}

pub unsafe extern "C" fn mprotect(addr: *mut rl::c_void, len: rl::size_t, prot: rl::c_int) -> rl::c_int {
    sched_point("mprotect");
    with(|e| {
        let w0 = if e.log_enabled { e.watch_snapshot() } else { Vec::new() };
        let idx = e.n_mprotect;
        e.n_mprotect += 1;
        let ret = if e.mprotect_fail_at == Some(idx) || e.mprotect_fail_range.map(|(s, t)| (addr as u64) < t && (addr as u64 + len as u64) > s).unwrap_or(false) { -1 } else { rl::mprotect(addr, len, prot) };
        if e.log_enabled {
            e.log.push(Call { kind: Kind::Mprotect, a: addr as u64, b: len as u64, c: prot as u64, ret: ret as i64, snap: None, watch: w0 });
        }
        ret
    })
}

pub unsafe extern "C" fn sysconf(name: rl::c_int) -> rl::c_long {
    if name == rl::_SC_PAGESIZE {
        with(|e| {
            let v = match (&e.model, e.page_size_override) {
                (Some(m), _) => m.page_size as rl::c_long,
                (None, Some(p)) => p as rl::c_long,
                (None, None) => rl::sysconf(name),
            };
            v
        })
    } else {
        rl::sysconf(name)
    }
}

/// Interposed platform primitive (a no-op on x86-64 in glibc/libgcc): log the range and what it
/// held when the flush was requested.
#[allow(non_snake_case)]
pub unsafe fn __clear_cache(start: *mut u8, end: *mut u8) {
    sched_point("clear_cache");
    with(|e| {
        let w0 = if e.log_enabled { e.watch_snapshot() } else { Vec::new() };
        e.n_flush += 1;
        if e.log_enabled {
            let (a, b) = (start as u64, end as u64);
            let snap = if b >= a && b - a <= 4096 { safe_read(a, (b - a) as usize) } else { None };
            e.log.push(Call { kind: Kind::Flush, a, b, c: 0, ret: 0, snap, watch: w0 });
        }
    })
}
