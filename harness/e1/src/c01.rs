//! C01 (and the x86-64 parts of C10 stub, C13): address placements of function, trampoline, fake.
use crate::scen::{self, Kind, Pages, Via, X64Case};
use crate::Args;
use std::cell::RefCell;
use vkit::serde_json::{json, Value};

pub const BASES: [u64; 7] = [
    0x1_1000,           // lowest usable pages (window clipped at zero)
    0x7FF_E000,         // just below 128 MiB: window clipped at zero
    0x800_0000,         // exactly 128 MiB
    0x4000_0000,        // 1 GiB
    0x5554_0000_0000,   // PIE-like
    0x7F00_0000_0000,   // library-like
    0x7FFF_E000_0000,   // near the top of user space
];

pub fn offsets(tier: &str) -> Vec<u64> {
    if tier == "thorough" {
        (0..4096).collect()
    } else {
        let mut v = vec![0, 1, 8, 15, 16, 0x7FF, 0x800, 0xFF0];
        v.extend(0xFF4..=0xFFF);
        v
    }
}

/// trampoline displacement in pages relative to the target's page
pub fn deltas(tier: &str) -> Vec<i64> {
    if tier == "thorough" {
        let mut v: Vec<i64> = vec![-32768, -32767, -32766, -4096, -256, -2, -1, 2, 3, 256, 4096, 32766, 32767, 32768];
        v.extend((-64..=-3).map(|x| x * 1));
        v.extend(4..=64);
        v.sort();
        v.dedup();
        v
    } else {
        vec![-32768, -32767, -1, 2, 32767, 32768]
    }
}

/// displacements of the fake from (trampoline + 5)
pub fn fake_disps() -> Vec<i128> {
    let mut v: Vec<i128> = Vec::new();
    for d in -2..=2 {
        v.push(i32::MIN as i128 + d);
        v.push(i32::MAX as i128 + d);
    }
    v.extend([-1, 0, 1]);
    for k in 0..63 {
        let p = 1i128 << k;
        for s in [-1i128, 1] {
            for e in [-1i128, 0, 1] {
                v.push(s * p + e);
            }
        }
    }
    v.sort();
    v.dedup();
    v
}

fn far_base_for(a: u64) -> u64 {
    // "elsewhere" placements of the OS model: far outside every window of this target
    if a < 0x3000_0000_0000 {
        0x6800_0000_0000
    } else {
        0x2800_0000_0000
    }
}

/// Enumerate the placement domain; only the cases of shard `shard.0` of `shard.1` are materialised
/// (the thorough domain has millions of cases). Returns (my cases, total number of cases).
pub fn cases(tier: &str, shard: (usize, usize)) -> (Vec<Value>, usize) {
    let mut out = Vec::new();
    let mut idx = 0usize;
    let mut emit = |a: u64, tramp: Option<u64>, fake: u64, kind: &str, via: &str| {
        if idx % shard.1 == shard.0 {
            out.push(json!({"a": a, "tramp": tramp, "fake": fake, "kind": kind, "via": via, "far_base": far_base_for(a)}));
        }
        idx += 1;
    };
    let thorough = tier == "thorough";
    let offs_all = offsets(tier);
    let offs_q = offsets("quick");
    let dls_all = deltas(tier);
    let dls_q = deltas("quick");
    let fd = fake_disps();
    let abs: [u64; 6] = [1, (1 << 47) - 1, 1 << 47, (1 << 63) - 1, 1 << 63, u64::MAX];
    for (bi, &b) in BASES.iter().enumerate() {
        for (oi, &o) in offs_all.iter().enumerate() {
            let a = b + o;
            let o_is_quick = offs_q.contains(&o);
            // the allocator's own search (default model answers), near fake and far fake, bool both
            for (fake, kind) in [(a.wrapping_add(0x10_0000), "exec"), (a ^ 0x1000_0000_0000, "exec"), (0, "bool0"), (0, "bool1")] {
                emit(a, None, fake, kind, "internal");
            }
            for (di, &d) in dls_all.iter().enumerate() {
                // thorough: every offset with the quick displacements, every displacement with the quick offsets
                if thorough && !(o_is_quick || dls_q.contains(&d)) {
                    continue;
                }
                let t = b as i128 + d as i128 * 4096;
                if t < 0x1_0000 || t > 0x7FFF_FFFF_0000 {
                    continue;
                }
                let t = t as u64;
                for (fake, kind) in [(t + 0x80_0000, "exec"), (t ^ 0x1000_0000_0000, "exec"), (0, "bool0"), (0, "bool1")] {
                    emit(a, Some(t), fake, kind, "internal");
                    // the same placement requested through the public API (checked and unchecked flavours)
                    if (o_is_quick && oi % 4 == 0 || o >= 0xFFC) && dls_q.contains(&d) {
                        emit(a, Some(t), fake, kind, "api");
                        emit(a, Some(t), fake, kind, "api-unchecked");
                    }
                }
                // the full fake-displacement set for a boundary subset of (B, o, delta)
                let d_edge = di == 0 || di == dls_all.len() - 1 || d == -1;
                let boundary = (o == 0 || o == 0xFFC || o == 0x7FF) && d_edge && (bi == 1 || bi == 3 || bi == 4 || bi == 6);
                let boundary_t = thorough && (o == 0 || o == 0x7FF || o >= 0xFF4) && (d_edge || dls_q.contains(&d));
                if boundary || boundary_t {
                    for &dd in &fd {
                        let f = (t as i128 + 5 + dd) as u128 as u64;
                        if f != 0 {
                            emit(a, Some(t), f, "exec", "internal");
                        }
                    }
                    for &f in &abs {
                        emit(a, Some(t), f, "exec", "internal");
                    }
                }
            }
        }
    }
    // "Windows-style" long entry patch: trampoline block beyond +/-2 GiB (encoder level)
    for &b in &[0x4000_0000u64, 0x5554_0000_0000, 0x7F00_0000_0000] {
        for o in [0u64, 0x7FF, 0xFF4, 0xFFC] {
            let a = b + o;
            let mut ds: Vec<i128> = Vec::new();
            for k in -3..=3i128 {
                ds.push((1i128 << 31) + 5 + k);
                ds.push(-(1i128 << 31) + 5 + k);
            }
            ds.extend([1i128 << 32, -(1i128 << 32), 1i128 << 40, -(1i128 << 40), (1i128 << 46) + 0x1000, 0x10_0000, -0x10_0000]);
            for d in ds {
                let j = a as i128 + d;
                if j > 0x1_0000 && j < 0x7FFF_FFFF_0000 {
                    emit(a, Some(j as u64), 0, "far-entry", "internal");
                }
            }
        }
    }
    (out, idx)
}

thread_local! {
    static PAGES: RefCell<Pages> = RefCell::new(Pages::new());
}

pub fn exec(c: &Value) -> Value {
    if c["kind"] == "far-entry" {
        #[cfg(feature = "priv_amd64")]
        {
            let (a, jit) = (c["a"].as_u64().unwrap(), c["tramp"].as_u64().unwrap());
            let o = PAGES.with(|p| {
                let mut p = p.borrow_mut();
                if !p.is_mapped(a) || p.mapped.len() > 4 {
                    p.release_all();
                }
                scen::run_x64_far_entry(&mut p, a, jit)
            });
            let mut tags = vec!["far-entry".to_string()];
            if o.installed {
                tags.push(if o.entry_len_long { "entry:long" } else { "entry:rel32" }.into());
            }
            if o.real_call {
                tags.push("real-call".into());
            }
            return json!({"viols": o.viols.iter().map(|v| json!({"prop": v.prop, "key": v.key, "what": v.what})).collect::<Vec<_>>(), "tags": tags, "trace_class": "", "steps": 3});
        }
        #[cfg(not(feature = "priv_amd64"))]
        return json!({"viols": [], "tags": ["reduced:no-priv-access"], "trace_class": "", "steps": 0});
    }
    let case = X64Case {
        a: c["a"].as_u64().unwrap(),
        tramp: c["tramp"].as_u64(),
        fake: c["fake"].as_u64().unwrap(),
        kind: match c["kind"].as_str().unwrap() {
            "exec" => Kind::Exec,
            "bool0" => Kind::Bool(false),
            _ => Kind::Bool(true),
        },
        via: match c["via"].as_str().unwrap_or("internal") {
            "api" => Via::ApiChecked,
            "api-unchecked" => Via::ApiUnchecked,
            _ => Via::Internal,
        },
    };
    let far = c["far_base"].as_u64().unwrap();
    let o = PAGES.with(|p| {
        let mut p = p.borrow_mut();
        // one target region at a time (a cached page of another base could sit where this case's
        // trampoline has to go)
        if !p.is_mapped(case.a) || p.mapped.len() > 4 {
            p.release_all();
        }
        scen::run_x64(&mut p, &case, far)
    });
    let mut tags: Vec<String> = Vec::new();
    if let Some(s) = &o.skipped {
        tags.push(format!("skipped:{}", s.split(' ').next().unwrap_or("")));
    }
    if o.installed {
        tags.push("installed".into());
        tags.push(format!("via:{:?}", case.via));
        tags.push(if o.entry_len_long { "entry:long" } else { "entry:rel32" }.into());
        if matches!(case.kind, Kind::Exec) {
            tags.push(if o.tramp_long { "trampoline:long" } else { "trampoline:rel32" }.into());
        } else {
            tags.push("trampoline:bool-stub".into());
        }
        if case.a & 0xFFF >= 0xFFC {
            tags.push("entry-straddles-page".into());
        }
    }
    if o.refused.is_some() {
        tags.push("refused".into());
    }
    if o.real_call {
        tags.push("real-call".into());
    }
    // class of the emitted sequence with addresses abstracted (for C13: all distinct sequences)
    let trace_class = o.trace.iter().map(|t| t.split(|c| c == ' ' || c == ',').next().unwrap_or("").to_string() + if t.contains("r0") || t.contains("r0d") { ":rax" } else { "" }).collect::<Vec<_>>().join(";");
    json!({
        "viols": o.viols.iter().map(|v| json!({"prop": v.prop, "key": v.key, "what": v.what})).collect::<Vec<_>>(),
        "tags": tags, "trace_class": trace_class, "steps": 1 + o.installed as u64 * 2,
    })
}

pub fn main(a: &Args) -> i32 {
    let (cs, total) = if let Some(f) = &a.replay {
        let v: Value = vkit::serde_json::from_str(&std::fs::read_to_string(f).expect("replay file")).expect("json");
        (vec![v["case"].clone(), v["case"].clone()], 2)
    } else {
        cases(&a.tier, a.shard)
    };
    let domain = json!({
        "bases": BASES.iter().map(|b| format!("{b:#x}")).collect::<Vec<_>>(),
        "offsets": offsets(&a.tier).len(), "deltas_pages": deltas(&a.tier), "fake_displacements": fake_disps().len(),
    });
    let _ = total;
    // the cases are already this shard's: run them all
    let a2 = Args { check: a.check.clone(), tier: a.tier.clone(), shard: (0, 1), replay: a.replay.clone(), extra: a.extra.clone() };
    crate::run_cases(&a2, "c01", cs, 4000, &exec, domain)
}
