//! E1 — placement explorer.  usage: e1 <check> [--tier quick|thorough] [--shard I/N] [--replay FILE]
//!
//! Every case is an execution of the repository's real installer (mounted crate) against an
//! address-space layout and OS answers chosen by the explorer; the verdict comes from independent
//! decoders / abstract machines and, on x86-64, from really calling the patched function.
mod arm;
mod c01;
mod probes;
mod scen;

use vkit::isolate::{self, Outcome};
use vkit::serde_json::{json, Value};

pub struct Args {
    pub check: String,
    pub tier: String,
    pub shard: (usize, usize),
    pub replay: Option<String>,
    pub extra: Vec<String>,
}

fn parse_args() -> Args {
    let mut a = Args { check: String::new(), tier: "quick".into(), shard: (0, 1), replay: None, extra: Vec::new() };
    let mut it = std::env::args().skip(1);
    a.check = it.next().unwrap_or_default();
    while let Some(x) = it.next() {
        match x.as_str() {
            "--tier" => a.tier = it.next().unwrap(),
            "--shard" => {
                let s = it.next().unwrap();
                let (i, n) = s.split_once('/').unwrap();
                a.shard = (i.parse().unwrap(), n.parse().unwrap());
            }
            "--replay" => a.replay = it.next(),
            other => a.extra.push(other.to_string()),
        }
    }
    a
}

/// What one case reports back from the child.
pub struct CaseOut {
    pub json: Value,
}

/// Generic runner: `cases` are JSON descriptions; `exec` runs one inside the child and returns a
/// JSON object {"viols": [{prop,key,what}], "tags": [..], "trace": [..], ...}.
pub fn run_cases(a: &Args, check: &str, cases: Vec<Value>, per_child: usize, exec: &dyn Fn(&Value) -> Value, domain: Value) -> i32 {
    let mine: Vec<&Value> = if a.replay.is_some() { cases.iter().collect() } else { cases.iter().enumerate().filter(|(i, _)| i % a.shard.1 == a.shard.0).map(|(_, c)| c).collect() };
    let outcomes = isolate::run(mine.len(), per_child, 120_000, |i| {
        let r = exec(mine[i]);
        let stop = r["viols"].as_array().map(|v| !v.is_empty()).unwrap_or(false);
        (vkit::serde_json::to_vec(&r).unwrap(), stop)
    });
    let mut viols: Vec<Value> = Vec::new();
    let mut counts: std::collections::BTreeMap<(String, String), u64> = Default::default();
    let mut tags: std::collections::BTreeMap<String, u64> = Default::default();
    let mut traces: std::collections::BTreeMap<String, u64> = Default::default();
    let mut words: std::collections::BTreeSet<String> = Default::default();
    let mut transitions = 0u64;
    let mut add = |prop: &str, key: &str, what: &str, case: &Value, viols: &mut Vec<Value>| {
        let c = counts.entry((prop.to_string(), key.to_string())).or_insert(0);
        *c += 1;
        if *c <= 3 {
            viols.push(json!({"prop": prop, "key": key, "what": what, "case": case}));
        }
    };
    for (i, o) in outcomes.iter().enumerate() {
        match o {
            Outcome::Done(b) => {
                let v: Value = vkit::serde_json::from_slice(b).unwrap();
                for x in v["viols"].as_array().unwrap() {
                    add(x["prop"].as_str().unwrap(), x["key"].as_str().unwrap(), x["what"].as_str().unwrap(), mine[i], &mut viols);
                }
                if let Some(tc) = v["tag_counts"].as_object() {
                    for (k, n) in tc {
                        *tags.entry(k.clone()).or_insert(0) += n.as_u64().unwrap_or(0);
                    }
                } else {
                    for t in v["tags"].as_array().map(|x| x.as_slice()).unwrap_or(&[]) {
                        *tags.entry(t.as_str().unwrap().to_string()).or_insert(0) += 1;
                    }
                }
                if let Some(t) = v["trace_class"].as_str() {
                    *traces.entry(t.to_string()).or_insert(0) += 1;
                }
                for w in v["words"].as_array().map(|x| x.as_slice()).unwrap_or(&[]) {
                    if words.len() < 2_000_000 {
                        words.insert(w.as_str().unwrap().to_string());
                    }
                }
                transitions += v["steps"].as_u64().unwrap_or(1);
            }
            Outcome::Signal(sig, _) => add("*", &format!("process-killed-signal-{sig}"), &format!("the process died with signal {sig} while this placement was installed / called / removed"), mine[i], &mut viols),
            Outcome::Exit(code, _) => add("*", &format!("process-exit-{code}"), &format!("the process exited with status {code} during this placement"), mine[i], &mut viols),
            Outcome::Timeout(_) => add("*", "hang", "no progress for 120 s", mine[i], &mut viols),
        }
    }
    let step = (mine.len() / 4).max(1);
    let samples: Vec<&Value> = mine.iter().step_by(step).take(4).copied().collect();
    let out = json!({
        "engine": "e1", "check": check, "tier": a.tier, "shard": [a.shard.0, a.shard.1],
        "cases": mine.len(), "total_cases": cases.len(), "transitions": transitions,
        "tags": tags, "trace_classes": traces, "words": words.into_iter().collect::<Vec<_>>(),
        "violation_counts": counts.iter().map(|((p, k), n)| json!({"prop": p, "key": k, "count": n})).collect::<Vec<_>>(),
        "violations": viols, "samples": samples, "domain": domain,
    });
    println!("{}", vkit::serde_json::to_string(&out).unwrap());
    0
}

fn main() {
    vkit::proc::ensure_no_aslr();
    isolate::quiet_panics();
    let a = parse_args();
    let code = match a.check.as_str() {
        "c01" => c01::main(&a),
        "c15" | "c16" | "c11" => arm::main(&a),
        "probe" => probes::main(&a),
        other => {
            eprintln!("e1: unknown check {other:?}");
            2
        }
    };
    std::process::exit(code);
}
