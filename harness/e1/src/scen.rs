//! Scenario execution for the placement explorer: put a synthetic function, a fake and (through
//! the OS model) the trampoline where the placement says, run the real installer, judge the bytes
//! it wrote with the independent abstract machines and — where everything is mapped — by really
//! calling the patched function.
use std::collections::{BTreeMap, BTreeSet};
use std::panic::{catch_unwind, AssertUnwindSafe};
use vcore::vaccess::{self, venv, Backend};
use vkit::arena;

#[derive(Clone, Debug)]
pub struct Viol {
    pub prop: &'static str,
    pub key: String,
    pub what: String,
}

/// Regions the harness mapped for targets / fakes in this process (page -> pages mapped).
pub struct Pages {
    pub mapped: BTreeMap<u64, u64>,
    pub refused: BTreeSet<u64>,
}

impl Pages {
    pub fn new() -> Pages {
        Pages { mapped: BTreeMap::new(), refused: BTreeSet::new() }
    }
    /// Make sure [start, start+len) is mapped (rwx); false when the address range is not available
    /// in this process (occupied by the harness itself, non-canonical, below mmap_min_addr).
    pub fn ensure(&mut self, start: u64, len: u64) -> bool {
        let s = start & !0xFFF;
        if start.checked_add(len + 0x1000).is_none() {
            return false;
        }
        let e = (start + len + 0xFFF) & !0xFFF;
        if e > 0x7FFF_FFFF_F000 || s < 0x1_0000 {
            return false;
        }
        let mut p = s;
        while p < e {
            if self.refused.contains(&p) {
                return false;
            }
            if !self.mapped.contains_key(&p) {
                if arena::map_fixed(p, 0x1000, arena::RWX).is_err() {
                    self.refused.insert(p);
                    return false;
                }
                self.mapped.insert(p, 1);
            }
            p += 0x1000;
        }
        true
    }
    pub fn is_mapped(&self, a: u64) -> bool {
        self.mapped.contains_key(&(a & !0xFFF))
    }
    pub fn release_all(&mut self) {
        for (&p, _) in self.mapped.iter() {
            arena::unmap(p, 0x1000);
        }
        self.mapped.clear();
    }
    pub fn release(&mut self, start: u64, len: u64) {
        let s = start & !0xFFF;
        let e = (start + len + 0xFFF) & !0xFFF;
        let mut p = s;
        while p < e {
            if self.mapped.remove(&p).is_some() {
                arena::unmap(p, 0x1000);
            }
            p += 0x1000;
        }
    }
}

#[derive(Clone, Copy, Debug, PartialEq, Eq)]
pub enum Kind {
    Exec,
    Bool(bool),
}

/// How the installation is requested.
#[derive(Clone, Copy, Debug, PartialEq, Eq)]
pub enum Via {
    /// the crate-internal dispatch (`WhenCalled`), which every public flavour funnels into
    Internal,
    /// public API, type-checked: `when_called(FuncPtr).will_execute_raw(FuncPtr)` / `.will_return_boolean(v)`
    ApiChecked,
    /// public API, unchecked flavours
    ApiUnchecked,
}

#[derive(Clone, Debug)]
pub struct X64Case {
    /// entry address of the synthetic target
    pub a: u64,
    /// page the OS model answers the allocator's first request with (None: default model answers)
    pub tramp: Option<u64>,
    /// entry address of the fake
    pub fake: u64,
    pub kind: Kind,
    pub via: Via,
}

#[derive(Default, Clone, Debug)]
pub struct Outcome {
    pub installed: bool,
    pub refused: Option<String>,
    pub skipped: Option<String>,
    pub real_call: bool,
    /// the instruction sequence between caller and fake, as decoded (for C13's "all emitted sequences")
    pub trace: Vec<String>,
    pub entry_len_long: bool,
    pub tramp_long: bool,
    pub viols: Vec<Viol>,
}

pub const TARGET_MARK: u32 = 0x1111_0000;
pub const FAKE_MARK: u32 = 0x2222_0000;

fn read_mem(pages: &Pages, owned: &[(u64, u64)], a: u64, n: usize) -> Option<Vec<u8>> {
    // every byte must lie in a page the harness mapped or in a live trampoline mapping
    let ok = |x: u64| pages.is_mapped(x) || owned.iter().any(|&(s, l)| x >= s && x < s + l);
    if n == 0 || !ok(a) || !ok(a + n as u64 - 1) {
        return None;
    }
    Some(unsafe { arena::read(a, n) })
}

/// Run one x86-64 placement.  `pages` caches harness mappings across cases of one process.
pub fn run_x64(pages: &mut Pages, c: &X64Case, far_base: u64) -> Outcome {
    let mut o = Outcome::default();
    // 1. the target: two pages around the entry, r-x as code is
    let tpage = c.a & !0xFFF;
    if !pages.ensure(tpage, 0x2000) {
        o.skipped = Some(format!("target page {tpage:#x} not available in this process"));
        return o;
    }
    arena::protect(tpage, 0x2000, arena::RW);
    unsafe {
        std::ptr::write_bytes(tpage as *mut u8, 0xCC, 0x2000);
        arena::write(c.a, &arena::x64_ret_const(TARGET_MARK, 16));
    }
    arena::protect(tpage, 0x2000, arena::RX);
    // 2. the fake (only where that address can exist in this process)
    let mut fake_mapped = false;
    if let Kind::Exec = c.kind {
        let overlaps_target = c.fake.wrapping_add(16) > tpage && c.fake < tpage + 0x2000;
        let overlaps_tramp = c.tramp.map(|t| c.fake.wrapping_add(16) > t && c.fake < t + 0x1000).unwrap_or(false);
        if !overlaps_target && !overlaps_tramp && pages.ensure(c.fake, 16) {
            unsafe { arena::write(c.fake, &arena::x64_ret_const(FAKE_MARK, 6)) };
            fake_mapped = true;
        }
    }
    // 3. environment
    venv::reset();
    venv::with(|e| {
        let mut m = venv::Model::new(4096);
        m.far_next = far_base;
        if let Some(t) = c.tramp {
            m.script.push_back(venv::Answer::At(t));
        }
        m.occupied.push((tpage, tpage + 0x2000));
        if fake_mapped {
            m.occupied.push((c.fake & !0xFFF, ((c.fake + 16 + 0xFFF) & !0xFFF)));
        }
        e.model = Some(m);
        e.log_enabled = false;
    });
    let lo = c.a.saturating_sub(16).max(tpage);
    let pre = unsafe { arena::read(lo, (c.a - lo) as usize + 32.min((tpage + 0x2000 - c.a) as usize)) };
    let image = |lo: u64, len: usize| unsafe { arena::read(lo, len) };
    // 4. the real installer
    // the public flavours keep their guards inside an `InjectorPP`; it plays the guard's role here
    enum Held {
        Guard(vaccess::Guard),
        Injector(vcore::interface::injector::InjectorPP),
    }
    let r = catch_unwind(AssertUnwindSafe(|| unsafe {
        use vcore::interface::injector::{FuncPtr, InjectorPP};
        match (c.via, c.kind) {
            (Via::Internal, Kind::Exec) => Held::Guard(vaccess::replace(Backend::Amd64, c.a as usize, c.fake as usize)),
            (Via::Internal, Kind::Bool(v)) => Held::Guard(vaccess::replace_bool(Backend::Amd64, c.a as usize, v)),
            (Via::ApiChecked, Kind::Exec) => {
                let mut i = InjectorPP::new();
                i.when_called(FuncPtr::new(c.a as *const (), "fn() -> u32")).will_execute_raw(FuncPtr::new(c.fake as *const (), "fn() -> u32"));
                Held::Injector(i)
            }
            (Via::ApiChecked, Kind::Bool(v)) => {
                let mut i = InjectorPP::new();
                i.when_called(FuncPtr::new(c.a as *const (), "fn() -> bool")).will_return_boolean(v);
                Held::Injector(i)
            }
            (Via::ApiUnchecked, Kind::Exec) => {
                let mut i = InjectorPP::new();
                i.when_called_unchecked(FuncPtr::new(c.a as *const (), "")).will_execute_raw_unchecked(FuncPtr::new(c.fake as *const (), ""));
                Held::Injector(i)
            }
            (Via::ApiUnchecked, Kind::Bool(v)) => {
                let mut i = InjectorPP::new();
                i.when_called_unchecked(FuncPtr::new(c.a as *const (), "fn() -> bool")).will_return_boolean(v);
                Held::Injector(i)
            }
        }
    }));
    let owned: Vec<(u64, u64)> = venv::with(|e| e.owned.iter().filter(|(_, (_, b))| *b).map(|(a, (l, _))| (*a, *l)).collect());
    let env_errors: Vec<String> = venv::with(|e| std::mem::take(&mut e.errors));
    for e in &env_errors {
        let prop = if e.starts_with("machinery") { "MACHINERY" } else { "C11" };
        o.viols.push(Viol { prop, key: "bad-unmap".into(), what: e.clone() });
    }
    match r {
        Err(p) => {
            let msg = p.downcast_ref::<String>().cloned().or_else(|| p.downcast_ref::<&str>().map(|s| s.to_string())).unwrap_or_default();
            o.refused = Some(msg.clone());
            if image(lo, pre.len()) != pre {
                o.viols.push(Viol { prop: "C01", key: "x86_64:refused-but-modified".into(), what: format!("installation panicked ({msg}) but the bytes at the entry changed") });
            }
            // a placement that was rejected as out of range must have been given back (C11); a page
            // that was accepted and is merely abandoned by an installation failing for another
            // reason is outside every given property
            let left: Vec<u64> = venv::with(|e| e.owned.keys().copied().filter(|k| k.abs_diff(c.a) > 0x800_0000 + 0x1000).collect());
            if !left.is_empty() {
                o.viols.push(Viol { prop: "C11", key: "x86_64:rejected-placement-left-mapped".into(), what: format!("installation panicked ({msg}) and left out-of-range placement(s) {left:x?} mapped") });
            }
            venv::with(|e| {
                let keys: Vec<u64> = e.owned.keys().copied().collect();
                for k in keys {
                    let (l, b) = e.owned.remove(&k).unwrap();
                    if b {
                        arena::unmap(k, l);
                    }
                }
            });
        }
        Ok(guard) => {
            o.installed = true;
            let mem = |a: u64, n: usize| read_mem(pages, &owned, a, n);
            let ours = |a: u64| (a >= c.a && a < c.a + 16) || owned.iter().any(|&(s, l)| a >= s && a < s + l);
            let run = vkit::x64::run_to(c.a, &mem, &ours, 8, if matches!(c.kind, Kind::Exec) { Some(c.fake) } else { None });
            o.trace = run.trace.clone();
            let entry_now = image(c.a, 16);
            // coverage classes by *placement*, not by today's encodings: is the trampoline beyond rel32
            // reach of the entry, is the fake beyond rel32 reach of the trampoline
            let _ = &entry_now;
            let tramp0 = owned.first().map(|&(s, _)| s as i128);
            o.entry_len_long = tramp0.map(|t| (t - (c.a as i128 + 5)).abs() > i32::MAX as i128).unwrap_or(false);
            o.tramp_long = tramp0.map(|t| (c.fake as i128 - t).abs() > i32::MAX as i128 - 64).unwrap_or(false);
            use vkit::x64::Stop;
            match (&c.kind, &run.stop) {
                (Kind::Exec, Stop::Left { pc }) if *pc == c.fake => {}
                (Kind::Exec, Stop::Left { pc }) => o.viols.push(Viol {
                    prop: "C01",
                    key: "x86_64:wrong-destination".into(),
                    what: format!("the patched entry leads to {pc:#x}, the fake is at {:#x} (path: {})", c.fake, run.trace.join("; ")),
                }),
                (Kind::Bool(v), Stop::Returned) => {
                    if vkit::x64::al(&run) != Some(*v as u8) {
                        o.viols.push(Viol { prop: "C10", key: "x86_64:bool-stub-wrong-value".into(), what: format!("stub returns with al = {:?}, requested {}", vkit::x64::al(&run), *v as u8) });
                    }
                    if let Some(rax) = run.regs[0] {
                        if rax > 1 {
                            o.viols.push(Viol { prop: "C10", key: "x86_64:bool-stub-wrong-value".into(), what: format!("stub returns rax = {rax:#x}") });
                        }
                    }
                }
                (_, Stop::Unknown { pc, bytes }) => {
                    o.viols.push(Viol { prop: "UNDECIDED", key: "x86_64:unknown-instruction".into(), what: format!("decoder does not know the bytes {:02x?} at {pc:#x}", &bytes[..bytes.len().min(8)]) });
                }
                (_, other) => o.viols.push(Viol {
                    prop: if matches!(c.kind, Kind::Exec) { "C01" } else { "C10" },
                    key: "x86_64:control-goes-elsewhere".into(),
                    what: format!("from the patched entry the machine ends with {other:?} (path: {})", run.trace.join("; ")),
                }),
            }
            // calling-convention discipline of the emitted sequence (C13 / C10)
            let cc_prop = if matches!(c.kind, Kind::Exec) { "C13" } else { "C10" };
            let allowed = if matches!(c.kind, Kind::Exec) { vkit::x64::SCRATCH_OK } else { 1 };
            if run.written & !allowed != 0 {
                o.viols.push(Viol { prop: cc_prop, key: format!("x86_64:writes-register-mask-{:#06x}", run.written & !allowed), what: format!("the sequence writes registers outside the allowed scratch set: mask {:#06x} (path: {})", run.written & !allowed, run.trace.join("; ")) });
            }
            if run.read_initial != 0 {
                o.viols.push(Viol { prop: cc_prop, key: "x86_64:reads-caller-register".into(), what: format!("the sequence reads a register still holding the caller's value: mask {:#06x}", run.read_initial) });
            }
            let want_rsp = if matches!(c.kind, Kind::Exec) { 0 } else { 8 };
            if matches!(run.stop, Stop::Left { .. } | Stop::Returned) && run.rsp_delta != want_rsp {
                o.viols.push(Viol { prop: cc_prop, key: "x86_64:stack-pointer-moved".into(), what: format!("rsp changes by {} before control reaches the fake / the caller", run.rsp_delta) });
            }
            if run.mem_writes != 0 {
                o.viols.push(Viol { prop: cc_prop, key: "x86_64:writes-stack-memory".into(), what: format!("the sequence writes memory ({} pushes)", run.mem_writes) });
            }
            // the trampoline must be a single mapping obtained from mmap and within reach: decided
            // by the machine above (it followed the entry into an owned mapping)
            // 5. really call it
            let can_call = match c.kind {
                Kind::Exec => fake_mapped,
                Kind::Bool(_) => true,
            } && o.viols.iter().all(|v| v.prop == "C13");
            if can_call {
                o.real_call = true;
                let got = unsafe { arena::call_u32(c.a) };
                let want = match c.kind {
                    Kind::Exec => FAKE_MARK,
                    Kind::Bool(v) => v as u32,
                };
                if got != want {
                    o.viols.push(Viol { prop: if matches!(c.kind, Kind::Exec) { "C01" } else { "C10" }, key: "x86_64:real-call-wrong-value".into(), what: format!("calling the patched function returned {got:#x}, expected {want:#x}") });
                }
                // "from any call site or thread": through a function pointer held elsewhere and from
                // a second OS thread (a sample of the placements: a thread costs more than the rest)
                if (c.a >> 4 ^ c.fake >> 3) % 8 == 0 {
                    let fp: extern "C" fn() -> u32 = unsafe { std::mem::transmute(c.a as usize) };
                    let fp = std::hint::black_box(fp);
                    let got2 = std::thread::spawn(move || fp()).join().unwrap_or(0xDEAD_DEAD);
                    if got2 != want {
                        o.viols.push(Viol { prop: if matches!(c.kind, Kind::Exec) { "C01" } else { "C10" }, key: "x86_64:real-call-wrong-value-second-thread".into(), what: format!("calling the patched function from a second thread returned {got2:#x}, expected {want:#x}") });
                    }
                }
            }
            drop(guard);
            if image(lo, pre.len()) != pre {
                o.viols.push(Viol { prop: "C02", key: "x86_64:not-restored".into(), what: "bytes around the entry differ from the pre-image after the guard was dropped".into() });
            }
            let left: usize = venv::with(|e| e.owned.len());
            if left != 0 {
                o.viols.push(Viol { prop: "C12", key: "x86_64:mapping-left-after-drop".into(), what: format!("{left} mapping(s) still owned after the guard was dropped") });
                venv::with(|e| {
                    let keys: Vec<u64> = e.owned.keys().copied().collect();
                    for k in keys {
                        let (l, b) = e.owned.remove(&k).unwrap();
                        if b {
                            arena::unmap(k, l);
                        }
                    }
                });
            }
            for e in venv::with(|e| std::mem::take(&mut e.errors)) {
                let prop = if e.starts_with("machinery") { "MACHINERY" } else { "C12" };
                o.viols.push(Viol { prop, key: "bad-unmap".into(), what: e });
            }
        }
    }
    if fake_mapped {
        pages.release(c.fake, 16);
    }
    o
}


/// "Windows-style" long entry patch (encoder level, feature `priv_access`): `patch_and_guard(src, jit)`
/// with the trampoline block beyond +/-2 GiB of the function, which the Linux allocator never
/// produces.  The block at `jit` is a stub the harness wrote itself.
#[cfg(feature = "priv_amd64")]
pub fn run_x64_far_entry(pages: &mut Pages, a: u64, jit: u64) -> Outcome {
    let mut o = Outcome::default();
    let tpage = a & !0xFFF;
    if !pages.ensure(tpage, 0x2000) {
        o.skipped = Some(format!("target page {tpage:#x} not available"));
        return o;
    }
    arena::protect(tpage, 0x2000, arena::RW);
    unsafe {
        std::ptr::write_bytes(tpage as *mut u8, 0xCC, 0x2000);
        arena::write(a, &arena::x64_ret_const(TARGET_MARK, 16));
    }
    arena::protect(tpage, 0x2000, arena::RX);
    let overlaps = jit.wrapping_add(16) > tpage && jit < tpage + 0x2000;
    let jit_mapped = !overlaps && pages.ensure(jit, 16);
    if jit_mapped {
        unsafe { arena::write(jit, &arena::x64_ret_const(FAKE_MARK, 6)) };
    }
    venv::reset();
    venv::with(|e| e.log_enabled = false);
    let pre = unsafe { arena::read(a, 32.min((tpage + 0x2000 - a) as usize)) };
    let r = catch_unwind(AssertUnwindSafe(|| unsafe { vaccess::amd64_patch_and_guard(a as usize, jit as usize, 12) }));
    match r {
        Err(p) => {
            let msg = p.downcast_ref::<String>().cloned().or_else(|| p.downcast_ref::<&str>().map(|s| s.to_string())).unwrap_or_default();
            o.refused = Some(msg.clone());
            if unsafe { arena::read(a, pre.len()) } != pre {
                o.viols.push(Viol { prop: "C01", key: "x86_64:refused-but-modified".into(), what: format!("long entry patch refused ({msg}) but the entry changed") });
            }
        }
        Ok(g) => {
            o.installed = true;
            let mem = |x: u64, n: usize| if x >= tpage && x + n as u64 <= tpage + 0x2000 { Some(unsafe { arena::read(x, n) }) } else { None };
            let ours = |x: u64| x >= a && x < a + 16;
            let run = vkit::x64::run_to(a, &mem, &ours, 4, Some(jit));
            o.trace = run.trace.clone();
            o.entry_len_long = (jit as i128 - (a as i128 + 5)).abs() > i32::MAX as i128;
            match &run.stop {
                vkit::x64::Stop::Left { pc } if *pc == jit => {}
                other => o.viols.push(Viol { prop: "C01", key: "x86_64:long-entry-wrong-destination".into(), what: format!("entry patch for a trampoline at {jit:#x} ({:+#x} from the function): machine ends with {other:?} (path: {})", jit as i128 - a as i128, run.trace.join("; ")) }),
            }
            if run.written & !vkit::x64::SCRATCH_OK != 0 || run.rsp_delta != 0 || run.mem_writes != 0 {
                o.viols.push(Viol { prop: "C13", key: "x86_64:long-entry-clobbers".into(), what: format!("long entry patch writes registers mask {:#x}, rsp delta {}, memory writes {}", run.written, run.rsp_delta, run.mem_writes) });
            }
            if jit_mapped && o.viols.is_empty() {
                o.real_call = true;
                let got = unsafe { arena::call_u32(a) };
                if got != FAKE_MARK {
                    o.viols.push(Viol { prop: "C01", key: "x86_64:real-call-wrong-value".into(), what: format!("calling through the long entry patch returned {got:#x}") });
                }
            }
            drop(g); // restores the entry; its munmap of the harness's block is refused by the environment
            venv::with(|e| e.errors.clear());
            if unsafe { arena::read(a, pre.len()) } != pre {
                o.viols.push(Viol { prop: "C02", key: "x86_64:long-entry-not-restored".into(), what: "the 12-byte entry patch was not restored exactly".into() });
            }
        }
    }
    if jit_mapped {
        pages.release(jit, 16);
    }
    o
}
