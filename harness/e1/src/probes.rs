//! Host probes for C13 / C10: an assembly caller loads every argument register, the vector
//! argument registers, four stack slots and the callee-saved set with distinct patterns and calls
//! a patched synthetic function; an assembly fake records what it sees on entry and returns
//! distinct values.  Run for the short (rel32) and the long (mov rax; jmp rax) trampoline form.
use crate::Args;
use std::arch::global_asm;
use std::panic::{catch_unwind, AssertUnwindSafe};
use vcore::vaccess::{self, venv, Backend};
use vkit::arena;
use vkit::serde_json::{json, Value};

// Register-file layout (u64 slots):
//  0 rdi 1 rsi 2 rdx 3 rcx 4 r8 5 r9 6 rbx 7 rbp 8 r12 9 r13 10 r14 11 r15 12 r10 13 rax
//  14..17 stack args, 18 rsp, 19 r11
//  byte offset 0x100 + 32*i: ymm_i (i in 0..8)
pub const SLOTS: usize = 0x100 / 8 + 32;

#[repr(C, align(32))]
#[derive(Clone, Copy)]
pub struct RegFile(pub [u64; SLOTS]);

global_asm!(
    r#"
    .section .bss
    .balign 32
vp_rec:     .skip 0x200
vp_target:  .skip 8
vp_out:     .skip 8
vp_in:      .skip 8
vp_rsp:     .skip 8
vp_use_avx: .skip 8
    .text

    .global vprobe_call
    // rdi = target, rsi = in (RegFile*), rdx = out (RegFile*)
vprobe_call:
    push rbx
    push rbp
    push r12
    push r13
    push r14
    push r15
    sub rsp, 8
    mov [rip + vp_target], rdi
    mov [rip + vp_in], rsi
    mov [rip + vp_out], rdx
    mov r11, rsi
    cmp qword ptr [rip + vp_use_avx], 0
    je 1f
    vmovdqu ymm0, [r11 + 0x100]
    vmovdqu ymm1, [r11 + 0x120]
    vmovdqu ymm2, [r11 + 0x140]
    vmovdqu ymm3, [r11 + 0x160]
    vmovdqu ymm4, [r11 + 0x180]
    vmovdqu ymm5, [r11 + 0x1A0]
    vmovdqu ymm6, [r11 + 0x1C0]
    vmovdqu ymm7, [r11 + 0x1E0]
    jmp 2f
1:
    movdqu xmm0, [r11 + 0x100]
    movdqu xmm1, [r11 + 0x120]
    movdqu xmm2, [r11 + 0x140]
    movdqu xmm3, [r11 + 0x160]
    movdqu xmm4, [r11 + 0x180]
    movdqu xmm5, [r11 + 0x1A0]
    movdqu xmm6, [r11 + 0x1C0]
    movdqu xmm7, [r11 + 0x1E0]
2:
    push qword ptr [r11 + 8*17]
    push qword ptr [r11 + 8*16]
    push qword ptr [r11 + 8*15]
    push qword ptr [r11 + 8*14]
    mov [rip + vp_rsp], rsp
    mov rdi, [r11 + 8*0]
    mov rsi, [r11 + 8*1]
    mov rdx, [r11 + 8*2]
    mov rcx, [r11 + 8*3]
    mov r8,  [r11 + 8*4]
    mov r9,  [r11 + 8*5]
    mov rbx, [r11 + 8*6]
    mov rbp, [r11 + 8*7]
    mov r12, [r11 + 8*8]
    mov r13, [r11 + 8*9]
    mov r14, [r11 + 8*10]
    mov r15, [r11 + 8*11]
    mov r10, [r11 + 8*12]
    mov rax, [r11 + 8*13]
    mov r11, [r11 + 8*19]
    call qword ptr [rip + vp_target]
    mov r11, [rip + vp_out]
    mov [r11 + 8*13], rax
    mov [r11 + 8*2], rdx
    mov [r11 + 8*6], rbx
    mov [r11 + 8*7], rbp
    mov [r11 + 8*8], r12
    mov [r11 + 8*9], r13
    mov [r11 + 8*10], r14
    mov [r11 + 8*11], r15
    mov [r11 + 8*18], rsp
    mov r10, [rip + vp_rsp]
    mov [r11 + 8*17], r10
    movdqu [r11 + 0x100], xmm0
    movdqu [r11 + 0x120], xmm1
    mov rsp, [rip + vp_rsp]
    add rsp, 32
    add rsp, 8
    pop r15
    pop r14
    pop r13
    pop r12
    pop rbp
    pop rbx
    ret

    .global vprobe_recorder
vprobe_recorder:
    mov [rip + vp_rec + 8*19], r11
    mov [rip + vp_rec + 8*0], rdi
    mov [rip + vp_rec + 8*1], rsi
    mov [rip + vp_rec + 8*2], rdx
    mov [rip + vp_rec + 8*3], rcx
    mov [rip + vp_rec + 8*4], r8
    mov [rip + vp_rec + 8*5], r9
    mov [rip + vp_rec + 8*6], rbx
    mov [rip + vp_rec + 8*7], rbp
    mov [rip + vp_rec + 8*8], r12
    mov [rip + vp_rec + 8*9], r13
    mov [rip + vp_rec + 8*10], r14
    mov [rip + vp_rec + 8*11], r15
    mov [rip + vp_rec + 8*12], r10
    mov [rip + vp_rec + 8*13], rax
    mov [rip + vp_rec + 8*18], rsp
    mov r11, [rsp + 8]
    mov [rip + vp_rec + 8*14], r11
    mov r11, [rsp + 16]
    mov [rip + vp_rec + 8*15], r11
    mov r11, [rsp + 24]
    mov [rip + vp_rec + 8*16], r11
    mov r11, [rsp + 32]
    mov [rip + vp_rec + 8*17], r11
    cmp qword ptr [rip + vp_use_avx], 0
    je 3f
    vmovdqu [rip + vp_rec + 0x100], ymm0
    vmovdqu [rip + vp_rec + 0x120], ymm1
    vmovdqu [rip + vp_rec + 0x140], ymm2
    vmovdqu [rip + vp_rec + 0x160], ymm3
    vmovdqu [rip + vp_rec + 0x180], ymm4
    vmovdqu [rip + vp_rec + 0x1A0], ymm5
    vmovdqu [rip + vp_rec + 0x1C0], ymm6
    vmovdqu [rip + vp_rec + 0x1E0], ymm7
    jmp 4f
3:
    movdqu [rip + vp_rec + 0x100], xmm0
    movdqu [rip + vp_rec + 0x120], xmm1
    movdqu [rip + vp_rec + 0x140], xmm2
    movdqu [rip + vp_rec + 0x160], xmm3
    movdqu [rip + vp_rec + 0x180], xmm4
    movdqu [rip + vp_rec + 0x1A0], xmm5
    movdqu [rip + vp_rec + 0x1C0], xmm6
    movdqu [rip + vp_rec + 0x1E0], xmm7
4:
    movabs rax, 0x1111111111111111
    movabs rdx, 0x2222222222222222
    movq xmm0, rax
    movq xmm1, rdx
    ret

    .global vprobe_rec_ptr
vprobe_rec_ptr:
    lea rax, [rip + vp_rec]
    ret

    .global vprobe_set_avx
vprobe_set_avx:
    mov [rip + vp_use_avx], rdi
    ret
"#
);

extern "C" {
    fn vprobe_call(target: u64, input: *const RegFile, output: *mut RegFile);
    fn vprobe_recorder();
    fn vprobe_rec_ptr() -> *const u64;
    fn vprobe_set_avx(v: u64);
}

fn pattern(round: u64, slot: u64) -> u64 {
    let base = 0x0123_4567_89AB_CDEFu64.wrapping_mul(2 * slot + 3) ^ (0x9E37_79B9_7F4A_7C15u64.rotate_left((slot * 7 + round * 11) as u32 % 64));
    match round % 6 {
        0 => base,
        1 => !base,
        2 => base.rotate_left(17),
        3 => base | 0x8000_0000_0000_0001,
        4 => base & 0x7FFF_FFFF_FFFF_FFFE,
        _ => base.swap_bytes(),
    }
}

fn make_input(round: u64) -> RegFile {
    let mut r = RegFile([0; SLOTS]);
    for s in 0..20 {
        r.0[s] = pattern(round, s as u64);
    }
    for i in 0..8usize {
        for q in 0..4usize {
            r.0[0x100 / 8 + i * 4 + q] = pattern(round, 100 + (i * 4 + q) as u64);
        }
    }
    r
}

pub fn cases(_tier: &str) -> Vec<Value> {
    let mut v = Vec::new();
    for form in ["near", "far", "far-stub"] {
        for round in 0..6 {
            v.push(json!({"block": "cc-probe", "form": form, "round": round}));
        }
    }
    for val in [0, 1] {
        for round in 0..6 {
            v.push(json!({"block": "bool-probe", "value": val, "round": round}));
        }
    }
    v
}

fn viol(v: &mut Vec<Value>, prop: &str, key: &str, what: String) {
    v.push(json!({"prop": prop, "key": key, "what": what}));
}

pub fn exec(c: &Value) -> Value {
    let avx = std::is_x86_feature_detected!("avx");
    unsafe { vprobe_set_avx(avx as u64) };
    let vec_q = if avx { 4 } else { 2 };
    let mut viols: Vec<Value> = Vec::new();
    let mut tags: Vec<String> = Vec::new();
    let round = c["round"].as_u64().unwrap();
    let rec = vprobe_recorder as *const () as u64;
    venv::reset(); // pass-through: the real allocator against the real kernel
    let input = make_input(round);
    let mut out = RegFile([0; SLOTS]);
    let names = ["rdi", "rsi", "rdx", "rcx", "r8", "r9", "rbx", "rbp", "r12", "r13", "r14", "r15", "r10", "rax", "stack0", "stack1", "stack2", "stack3", "rsp", "r11"];
    match c["block"].as_str().unwrap() {
        "cc-probe" => {
            let form = c["form"].as_str().unwrap();
            // where the synthetic target lives decides the trampoline form
            let (target, fake) = match form {
                "near" => ((rec & !0xFFFF) - 0x1000_0000, rec),
                "far" => (0x2100_0000u64, rec),
                _ => {
                    // a position-independent forwarder far from everything: jmp [rip+0]; .quad recorder
                    let stub = 0x3000_0000_0000u64;
                    arena::map_fixed(stub, 0x1000, arena::RWX).expect("far stub page");
                    let mut b = vec![0xFF, 0x25, 0, 0, 0, 0];
                    b.extend_from_slice(&rec.to_le_bytes());
                    unsafe { arena::write(stub, &b) };
                    ((rec & !0xFFFF) - 0x1000_0000, stub)
                }
            };
            if arena::map_fixed(target & !0xFFF, 0x1000, arena::RW).is_err() {
                return json!({"viols": [], "tags": ["skipped:target-unavailable"], "steps": 0});
            }
            unsafe { arena::write(target, &arena::x64_ret_const(0xDEAD, 16)) };
            arena::protect(target & !0xFFF, 0x1000, arena::RX);
            let g = catch_unwind(AssertUnwindSafe(|| unsafe { vaccess::replace(Backend::Amd64, target as usize, fake as usize) }));
            let Ok(g) = g else {
                viol(&mut viols, "MACHINERY", "probe-install-refused", "installation of the probe refused".into());
                return json!({"viols": viols, "tags": tags, "steps": 1});
            };
            let entry = unsafe { arena::read(target, 16) };
            let tramp = venv::with(|e| e.owned.keys().next().copied()).unwrap_or(0);
            let tb = if tramp != 0 { unsafe { arena::read(tramp, 2) } } else { vec![0, 0] };
            tags.push(format!("entry:{}", if entry[0] == 0xE9 { "rel32" } else { "long" }));
            tags.push(format!("trampoline:{}", if tb[0] == 0xE9 { "rel32" } else { "long" }));
            unsafe {
                std::ptr::write_bytes(vprobe_rec_ptr() as *mut u8, 0, 0x200);
                vprobe_call(target, &input, &mut out);
            }
            let recd: &[u64] = unsafe { std::slice::from_raw_parts(vprobe_rec_ptr(), SLOTS) };
            // what the fake saw
            for s in (0..12).chain(14..18) {
                if recd[s] != input.0[s] {
                    viol(&mut viols, "C13", &format!("x86_64:{form}:fake-sees-wrong-{}", names[s]), format!("{} at the fake's entry is {:#x}, the caller supplied {:#x} ({form} fake, round {round})", names[s], recd[s], input.0[s]));
                }
            }
            for i in 0..8usize {
                for q in 0..vec_q {
                    let k = 0x100 / 8 + i * 4 + q;
                    if recd[k] != input.0[k] {
                        viol(&mut viols, "C13", &format!("x86_64:{form}:fake-sees-wrong-vector-register"), format!("{}mm{i} quadword {q} at the fake's entry is {:#x}, the caller supplied {:#x} ({form} fake, round {round})", if avx { "y" } else { "x" }, recd[k], input.0[k]));
                        break;
                    }
                }
            }
            // rsp at the fake's entry = rsp at the call - 8 (return address): no extra pushes
            if recd[18] != out.0[17].wrapping_sub(8) {
                viol(&mut viols, "C13", &format!("x86_64:{form}:stack-pointer-moved"), format!("rsp at the fake's entry is {:#x}, at the call it was {:#x}", recd[18], out.0[17]));
            }
            // what the caller got back
            if out.0[13] != 0x1111_1111_1111_1111 || out.0[2] != 0x2222_2222_2222_2222 {
                viol(&mut viols, "C13", &format!("x86_64:{form}:return-value-changed"), format!("caller sees rax={:#x} rdx={:#x}", out.0[13], out.0[2]));
            }
            if out.0[0x100 / 8] != 0x1111_1111_1111_1111 || out.0[0x120 / 8] != 0x2222_2222_2222_2222 {
                viol(&mut viols, "C13", &format!("x86_64:{form}:vector-return-changed"), format!("caller sees xmm0={:#x} xmm1={:#x}", out.0[0x100 / 8], out.0[0x120 / 8]));
            }
            for s in 6..12 {
                if out.0[s] != input.0[s] {
                    viol(&mut viols, "C13", &format!("x86_64:{form}:callee-saved-{}-changed", names[s]), format!("after the call {} is {:#x}, the caller left {:#x} ({form} fake)", names[s], out.0[s], input.0[s]));
                }
            }
            if out.0[18] != out.0[17] {
                viol(&mut viols, "C13", &format!("x86_64:{form}:stack-pointer-after-return"), format!("rsp after return {:#x}, before the call {:#x}", out.0[18], out.0[17]));
            }
            if recd[13] != input.0[13] {
                tags.push(format!("observation:{form}:rax-clobbered-before-fake"));
            }
            drop(g);
            arena::unmap(target & !0xFFF, 0x1000);
        }
        "bool-probe" => {
            let val = c["value"].as_u64().unwrap() == 1;
            let target = 0x2200_0000u64;
            if arena::map_fixed(target, 0x1000, arena::RW).is_err() {
                return json!({"viols": [], "tags": ["skipped:target-unavailable"], "steps": 0});
            }
            unsafe { arena::write(target, &arena::x64_ret_const(0xDEAD, 16)) };
            arena::protect(target, 0x1000, arena::RX);
            let g = catch_unwind(AssertUnwindSafe(|| unsafe { vaccess::replace_bool(Backend::Amd64, target as usize, val) }));
            let Ok(g) = g else {
                viol(&mut viols, "MACHINERY", "probe-install-refused", "installation of the probe refused".into());
                return json!({"viols": viols, "tags": tags, "steps": 1});
            };
            unsafe { vprobe_call(target, &input, &mut out) };
            if out.0[13] & 0xFF != val as u64 {
                viol(&mut viols, "C10", "x86_64:bool-returns-wrong-value", format!("forced {val}: al after the call is {:#x}", out.0[13] & 0xFF));
            }
            for s in 6..12 {
                if out.0[s] != input.0[s] {
                    viol(&mut viols, "C10", &format!("x86_64:bool-callee-saved-{}-changed", names[s]), format!("after the call {} is {:#x}, the caller left {:#x}", names[s], out.0[s], input.0[s]));
                }
            }
            if out.0[18] != out.0[17] {
                viol(&mut viols, "C10", "x86_64:bool-stack-pointer-after-return", format!("rsp after return {:#x}, before the call {:#x}", out.0[18], out.0[17]));
            }
            tags.push("bool-probe".into());
            drop(g);
            arena::unmap(target, 0x1000);
        }
        other => panic!("unknown block {other}"),
    }
    json!({"viols": viols, "tags": tags, "steps": 3})
}

pub fn main(a: &Args) -> i32 {
    let cs = if let Some(f) = &a.replay {
        let v: Value = vkit::serde_json::from_str(&std::fs::read_to_string(f).expect("replay file")).expect("json");
        vec![v["case"].clone(), v["case"].clone()]
    } else {
        cases(&a.tier)
    };
    crate::run_cases(a, "probe", cs, 1, &exec, json!({"rounds": 6, "forms": ["near", "far", "far-stub"]}))
}
