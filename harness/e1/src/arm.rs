//! AArch64 (C15), 32-bit ARM (C16) and the allocator scan (C11) on the host-mounted back-ends.
//! Cases are *blocks* of placements (a JSON object naming the block and its sub-range); the
//! child iterates the block and reports counts, the first few violations and the distinct
//! instruction words it saw (cross-decoded by llvm-mc in the driver).
use crate::Args;
use std::collections::BTreeSet;
use std::panic::{catch_unwind, AssertUnwindSafe};
use vcore::vaccess::{self, venv, Backend};
use vkit::arena;
use vkit::serde_json::{json, Value};

/// target base for the AArch64 sweeps; the whole +/-128 MiB window around it is one harness arena
pub const T64: u64 = 0x4000_0000;
pub const WIN: u64 = 0x800_0000;
pub const ARENA_LO: u64 = T64 - WIN - 0x10_0000;
pub const ARENA_HI: u64 = T64 + WIN + 0x20_0000;

struct Acc {
    viols: Vec<Value>,
    nviol: u64,
    words: BTreeSet<String>,
    tags: std::collections::BTreeMap<String, u64>,
    steps: u64,
}

impl Acc {
    fn new() -> Acc {
        Acc { viols: Vec::new(), nviol: 0, words: BTreeSet::new(), tags: Default::default(), steps: 0 }
    }
    fn viol(&mut self, prop: &str, key: &str, what: String) {
        self.nviol += 1;
        if self.viols.iter().filter(|v| v["key"] == key).count() < 2 {
            self.viols.push(json!({"prop": prop, "key": key, "what": what}));
        }
    }
    fn tag(&mut self, t: &str) {
        *self.tags.entry(t.to_string()).or_insert(0) += 1;
    }
    fn word64(&mut self, w: u32) {
        if self.words.len() < 300_000 {
            if let Some(r) = vkit::a64::render(w) {
                let b = w.to_le_bytes();
                self.words.insert(format!("a64|{:02x}{:02x}{:02x}{:02x}|{r}", b[0], b[1], b[2], b[3]));
            }
        }
    }
    fn finish(self) -> Value {
        let tags: Vec<Value> = self.tags.iter().flat_map(|(k, n)| std::iter::repeat(json!(k)).take((*n).min(1) as usize)).collect();
        json!({"viols": self.viols, "nviol": self.nviol, "tags": tags, "tag_counts": self.tags, "words": self.words.into_iter().collect::<Vec<_>>(), "steps": self.steps})
    }
}

fn ensure_arena64() {
    use std::sync::Once;
    static ONCE: Once = Once::new();
    ONCE.call_once(|| unsafe {
        let p = libc::mmap(
            ARENA_LO as *mut libc::c_void,
            (ARENA_HI - ARENA_LO) as usize,
            arena::RWX,
            libc::MAP_PRIVATE | libc::MAP_ANONYMOUS | libc::MAP_FIXED_NOREPLACE | libc::MAP_NORESERVE,
            -1,
            0,
        );
        assert_eq!(p as u64, ARENA_LO, "arm64 arena");
    });
}

fn model64(script: Vec<venv::Answer>) {
    venv::with(|e| {
        let mut m = venv::Model::new(4096);
        m.arenas.push((ARENA_LO, ARENA_HI));
        m.occupied.push((T64 - 0x1000, T64 + 0x2000));
        m.far_next = 0x6800_0000_0000;
        m.back_far = false;
        for s in script {
            m.script.push_back(s);
        }
        e.model = Some(m);
        e.log_enabled = false;
        e.errors.clear();
    });
}

fn mem_direct(lo: u64, hi: u64) -> impl Fn(u64, usize) -> Option<Vec<u8>> {
    move |a: u64, n: usize| {
        if a >= lo && a + n as u64 <= hi {
            Some(unsafe { arena::read(a, n) })
        } else {
            None
        }
    }
}

/// C17 at placement level: every byte of `[lo, lo+now.len())` that differs between `before` and
/// `now` must lie in a flush request of `log` that saw exactly that final value.
fn flush_gaps(log: &[venv::Call], lo: u64, before: &[u8], now: &[u8]) -> Option<String> {
    for (i, (&b, &n)) in before.iter().zip(now.iter()).enumerate() {
        if b == n {
            continue;
        }
        let addr = lo + i as u64;
        let ok = log.iter().any(|c| c.kind == venv::Kind::Flush && c.a <= addr && addr < c.b && c.snap.as_ref().and_then(|s| s.get((addr - c.a) as usize)).copied() == Some(n));
        if !ok {
            return Some(format!("code byte {addr:#x} was written ({b:#04x} -> {n:#04x}) but no instruction-cache flush request covers it holding that value"));
        }
    }
    None
}

fn panic_text(p: &(dyn std::any::Any + Send)) -> String {
    p.downcast_ref::<String>().cloned().or_else(|| p.downcast_ref::<&str>().map(|s| s.to_string())).unwrap_or_default()
}

/// One AArch64-Linux installation through the trait path with the trampoline page scripted.
/// Judges entry + trampoline with the A64 machine, restoration and mapping discipline.
fn one_arm64(acc: &mut Acc, a: u64, tramp: Option<u64>, fake: u64, boolv: Option<bool>, backend: Backend, collect_words: bool) {
    if !vaccess::has(backend) {
        // the seam to this back-end does not compile against the mounted tree: nothing to explore
        acc.tag("reduced:seam-unavailable:aarch64-backend");
        return;
    }
    acc.steps += 1;
    model64(tramp.map(|t| vec![venv::Answer::At(t)]).unwrap_or_default());
    let flush_check = collect_words;
    if flush_check {
        venv::with(|e| {
            e.log_enabled = true;
            e.log.clear();
        });
    }
    let pre = unsafe { arena::read(a - 16, 48) };
    let r = catch_unwind(AssertUnwindSafe(|| unsafe {
        match boolv {
            None => vaccess::replace(backend, a as usize, fake as usize),
            Some(v) => vaccess::replace_bool(backend, a as usize, v),
        }
    }));
    let owned: Vec<(u64, u64)> = venv::with(|e| e.owned.iter().map(|(a, (l, _))| (*a, *l)).collect());
    let disp = tramp.map(|t| t as i64 - a as i64);
    match r {
        Err(p) => {
            acc.tag("refused");
            let msg = panic_text(p.as_ref());
            if unsafe { arena::read(a - 16, 48) } != pre {
                acc.viol("C15", "aarch64:refused-but-modified", format!("installation at {a:#x} (trampoline displacement {disp:?}) panicked ({msg}) but bytes at the entry changed"));
            }
            if !owned.is_empty() {
                acc.viol("C11", "aarch64:page-accepted-then-refused-left-mapped", format!("installation at {a:#x} panicked ({msg}) and left the trampoline page {:#x} mapped (displacement {disp:?})", owned[0].0));
                venv::with(|e| {
                    e.owned.clear();
                    e.arena_owned.clear();
                });
            }
        }
        Ok(g) => {
            acc.tag("installed");
            if flush_check {
                acc.tag("flush-oracle");
                let log = venv::take_log();
                let now = unsafe { arena::read(a - 16, 48) };
                if let Some(m) = flush_gaps(&log, a - 16, &pre, &now) {
                    acc.viol("C17", "aarch64:written-not-flushed", format!("installation at {a:#x}: {m}"));
                }
                if let Some(&(t, _)) = owned.first() {
                    let tn = unsafe { arena::read(t, 32) };
                    if let Some(m) = flush_gaps(&log, t, &[0u8; 32], &tn) {
                        acc.viol("C17", "aarch64:trampoline-written-not-flushed", format!("trampoline of the installation at {a:#x}: {m}"));
                    }
                }
            }
            {
                let now = unsafe { arena::read(a - 16, 48) };
                if now[..16] != pre[..16] || now[28..] != pre[28..] {
                    acc.viol("C03", "aarch64:write-outside-12-byte-entry", format!("installation at {a:#x}: bytes outside the 12-byte entry slot changed"));
                }
            }
            let mem = mem_direct(ARENA_LO, ARENA_HI);
            let ours = |x: u64| (x >= a && x < a + 12) || owned.iter().any(|&(s, l)| x >= s && x < s + l);
            let run = vkit::a64::run_to(a, &mem, &ours, 12, if boolv.is_none() { Some(fake) } else { None });
            if collect_words {
                // only executed instruction words go to the llvm-mc cross-check (a trampoline may hold literal data)
                for w in &run.exec_words {
                    acc.word64(*w);
                }
            }
            use vkit::a64::Stop;
            match (boolv, &run.stop) {
                (None, Stop::Left { pc }) if *pc == fake => {
                    // the first instruction must be a branch into the mapping the allocator returned
                    if owned.len() != 1 {
                        acc.viol("C12", "aarch64:mapping-count", format!("{} mappings owned during one installation", owned.len()));
                    }
                }
                (None, Stop::Left { pc }) => acc.viol("C15", "aarch64:wrong-destination", format!("entry {a:#x}, trampoline {:?} (displacement {disp:?}), fake {fake:#x}: control reaches {pc:#x} (path: {})", owned.first().map(|o| o.0), run.trace.join("; "))),
                (Some(v), Stop::Returned) => {
                    if run.regs[0].map(|x| x & 0xFF) != Some(v as u64) || run.regs[0].map(|x| x > 1).unwrap_or(true) {
                        acc.viol("C10", "aarch64:bool-stub-wrong-value", format!("stub returns x0 = {:?}, requested {}", run.regs[0], v as u8));
                    }
                }
                (_, Stop::Unknown { pc, word }) => acc.viol("UNDECIDED", "aarch64:unknown-instruction", format!("decoder does not know the word {word:#010x} at {pc:#x}")),
                (_, other) => acc.viol("C15", "aarch64:control-goes-elsewhere", format!("entry {a:#x}, displacement {disp:?}, fake {fake:#x}: machine ends with {other:?} (path: {})", run.trace.join("; "))),
            }
            let allowed = if boolv.is_some() { 1 } else { vkit::a64::SCRATCH_OK };
            if run.written & !allowed != 0 {
                let bad = run.written & !allowed;
                acc.viol("C15", &format!("aarch64:writes-register-mask-{bad:#x}"), format!("the sequence writes registers outside x9-x17: mask {bad:#x} (path: {})", run.trace.join("; ")));
                // x0-x7 carry arguments, x8 the indirect-result pointer, x19-x29 are callee-saved: the
                // fake would not receive what the caller supplied (C13)
                acc.viol("C13", &format!("aarch64:writes-register-mask-{bad:#x}"), format!("the AArch64 sequence between caller and fake writes an argument / indirect-result / callee-saved register: mask {bad:#x} (path: {})", run.trace.join("; ")));
            }
            if run.read_initial != 0 && matches!(run.stop, Stop::Left { .. } | Stop::Returned) {
                acc.viol("C15", "aarch64:reads-caller-register", format!("the sequence reads a register holding the caller's value: mask {:#x} (path: {})", run.read_initial, run.trace.join("; ")));
            }
            let installed_img = unsafe { arena::read(a - 16, 48) };
            drop(g);
            if flush_check {
                let log = venv::take_log();
                let now = unsafe { arena::read(a - 16, 48) };
                if let Some(m) = flush_gaps(&log, a - 16, &installed_img, &now) {
                    acc.viol("C17", "aarch64:restored-not-flushed", format!("removal of the installation at {a:#x}: {m}"));
                }
                venv::with(|e| e.log_enabled = false);
            }
            if unsafe { arena::read(a - 16, 48) } != pre {
                acc.viol("C02", "aarch64:not-restored", format!("bytes around entry {a:#x} differ from the pre-image after the guard was dropped"));
                unsafe { arena::write_force(a - 16, &pre) };
            }
            let left = venv::with(|e| e.owned.len());
            if left != 0 {
                acc.viol("C12", "aarch64:mapping-left-after-drop", format!("{left} mapping(s) still owned after drop"));
                venv::with(|e| {
                    e.owned.clear();
                    e.arena_owned.clear();
                });
            }
        }
    }
    for e in venv::with(|e| std::mem::take(&mut e.errors)) {
        let prop = if e.starts_with("machinery") { "MACHINERY" } else { "C12" };
        acc.viol(prop, "bad-unmap", e);
    }
}

fn prep_target64(a: u64) {
    // twelve bytes of "original code" (three distinct words) plus guard words around them
    let words: [u32; 12] = [0xAAAA_0001, 0xAAAA_0002, 0xAAAA_0003, 0xAAAA_0004, 0xA9BF_7BFD, 0x9100_03FD, 0x5280_0540, 0xA8C1_7BFD, 0xD65F_03C0, 0xBBBB_0001, 0xBBBB_0002, 0xBBBB_0003];
    let mut b = Vec::new();
    for w in words {
        b.extend_from_slice(&w.to_le_bytes());
    }
    unsafe { arena::write_force(a - 16, &b) };
}

const BG: [u64; 4] = [0x0000, 0xFFFF, 0xAAAA, 0x5555];

fn boundary40() -> Vec<u64> {
    let mut v = vec![0u64, 1, 2, 3, 4, 7, 8, 0xF, 0x10, 0xFF, 0x100, 0x101, 0x7FF, 0x800, 0xFFF, 0x1000, 0x1234, 0x5555, 0x7FFF, 0x8000, 0x8001, 0xAAAA, 0xFF00, 0xFFF0, 0xFFFE, 0xFFFF];
    v.extend([0x00FF, 0x0F0F, 0xF0F0, 0x3FFF, 0x4000, 0xC000, 0xBFFF, 0x0FFF, 0xFEFF, 0x0080, 0x0040, 0x0020, 0x2000, 0xDEAD]);
    v
}

fn compose(chunks: [u64; 4]) -> u64 {
    chunks[0] | (chunks[1] << 16) | (chunks[2] << 32) | (chunks[3] << 48)
}

/// C15 blocks
pub fn c15_cases(tier: &str) -> Vec<Value> {
    let mut v = Vec::new();
    // trampoline: every 16-bit value in every chunk position against 4 backgrounds
    let step = if tier == "thorough" { 4096 } else { 8192 };
    for pos in 0..4 {
        for bg in 0..4 {
            let mut lo = 0u64;
            while lo < 65536 {
                v.push(json!({"block": "tramp-chunk", "pos": pos, "bg": bg, "lo": lo, "hi": lo + step, "stride": if tier == "thorough" { 1 } else { 1 }}));
                lo += step;
            }
        }
    }
    // trampoline: cross product of the boundary set in all four chunks
    let nb = boundary40().len();
    for i in 0..nb {
        for j in 0..nb {
            if tier == "thorough" || (i + j) % 4 == 0 {
                v.push(json!({"block": "tramp-cross", "c3": i, "c2": j}));
            }
        }
    }
    // boolean stub
    v.push(json!({"block": "bool"}));
    // entry (Linux): word-aligned displacements through the trait path
    if tier == "thorough" {
        let mut d = -32768i64;
        while d <= 32768 {
            v.push(json!({"block": "entry-pages", "dlo": d, "dhi": (d + 64).min(32769)}));
            d += 64;
        }
    } else {
        v.push(json!({"block": "entry-boundary"}));
        let mut d = -32768i64;
        while d <= 32768 {
            v.push(json!({"block": "entry-pages-sparse", "dlo": d, "dhi": (d + 2048).min(32769)}));
            d += 2048;
        }
    }
    // entry beyond the window (private encoder entry point, feature priv_access)
    v.push(json!({"block": "entry-far"}));
    // macOS entry encoder
    let chunks = if tier == "thorough" { 256 } else { 16 };
    for k in 0..chunks {
        v.push(json!({"block": "mac-encoder", "k": k, "of": chunks, "dense": tier == "thorough"}));
    }
    v.push(json!({"block": "mac-boundary"}));
    v.push(json!({"block": "mac-patch"}));
    v
}

fn displacement_case(d_bytes: i64) -> Option<(u64, u64)> {
    // displacement = tramp_page - a, with a = T64 + o (o word aligned in [0,4096)), tramp page aligned
    let delta = (d_bytes + 4095).div_euclid(4096);
    let o = delta * 4096 - d_bytes;
    if !(0..4096).contains(&o) || o % 4 != 0 {
        return None;
    }
    Some((T64 + o as u64, (T64 as i64 + delta * 4096) as u64))
}

fn mac_check(acc: &mut Acc, pc: u64, target: u64) {
    if pc == target {
        return; // a function is never its own trampoline
    }
    #[cfg(not(feature = "seam_macenc"))]
    {
        let _ = (pc, target);
        acc.tag("reduced:seam-unavailable:macos-entry-encoder");
        return;
    }
    #[cfg(feature = "seam_macenc")]
    mac_check_inner(acc, pc, target);
}

#[cfg(feature = "seam_macenc")]
fn mac_check_inner(acc: &mut Acc, pc: u64, target: u64) {
    acc.steps += 1;
    let r = catch_unwind(|| vaccess::macos_entry_words(pc as usize, target as usize));
    let words = match r {
        Ok(w) => w,
        Err(p) => {
            // a refusal (panic) is the loud failure the property allows
            let _ = panic_text(p.as_ref());
            acc.tag("mac:refused");
            return;
        }
    };
    if (target as i128 - pc as i128).abs() >= (1i128 << 32) {
        acc.tag("mac:accepted-beyond-4GiB");
    }
    acc.tag(if words.len() == 1 { "mac:direct-branch" } else { "mac:adrp-add-br" });
    if words.is_empty() || words.len() > 3 {
        acc.viol("C15", "aarch64-macos:entry-length", format!("encoder returned {} words for pc {pc:#x} target {target:#x}", words.len()));
        return;
    }
    let bytes: Vec<u8> = words.iter().flat_map(|w| w.to_le_bytes()).collect();
    let len = bytes.len() as u64;
    let mem = |a: u64, n: usize| if a >= pc && a + n as u64 <= pc + len { Some(bytes[(a - pc) as usize..(a - pc) as usize + n].to_vec()) } else { None };
    let ours = |a: u64| a >= pc && a < pc + len;
    let run = vkit::a64::run(pc, &mem, &ours, 6);
    use vkit::a64::Stop;
    match &run.stop {
        Stop::Left { pc: d } if *d == target => {}
        Stop::Left { pc: d } => acc.viol("C15", "aarch64-macos:wrong-destination", format!("pc {pc:#x} target {target:#x}: the sequence [{}] goes to {d:#x}", run.trace.join("; "))),
        other => acc.viol("C15", "aarch64-macos:control-goes-elsewhere", format!("pc {pc:#x} target {target:#x}: machine ends with {other:?} after [{}]", run.trace.join("; "))),
    }
    if run.written & !vkit::a64::SCRATCH_OK != 0 {
        acc.viol("C15", "aarch64-macos:writes-register", format!("sequence writes registers outside x9-x17: mask {:#x}", run.written & !vkit::a64::SCRATCH_OK));
        // the fake would not receive the argument / indirect-result / callee-saved registers the caller supplied (C13)
        acc.viol("C13", "aarch64-macos:writes-register", format!("the macOS AArch64 entry sequence [{}] writes an argument / indirect-result / callee-saved register: mask {:#x}", run.trace.join("; "), run.written & !vkit::a64::SCRATCH_OK));
    }
    if acc.words.len() < 50_000 {
        for w in &words {
            acc.word64(*w);
        }
    }
}

pub fn c15_exec(c: &Value) -> Value {
    ensure_arena64();
    let mut acc = Acc::new();
    let a0 = T64 + 0x100;
    prep_target64(a0);
    let tramp0 = T64 - 0x10_0000;
    match c["block"].as_str().unwrap() {
        "tramp-chunk" => {
            let pos = c["pos"].as_u64().unwrap() as usize;
            let bg = BG[c["bg"].as_u64().unwrap() as usize];
            for val in c["lo"].as_u64().unwrap()..c["hi"].as_u64().unwrap() {
                let mut ch = [bg; 4];
                ch[pos] = val;
                let f = compose(ch);
                if f == 0 {
                    continue;
                }
                one_arm64(&mut acc, a0, Some(tramp0), f, None, Backend::Arm64Linux, val % 251 == 0 || val < 4 || val > 65531);
            }
        }
        "tramp-cross" => {
            let b = boundary40();
            let (c3, c2) = (b[c["c3"].as_u64().unwrap() as usize], b[c["c2"].as_u64().unwrap() as usize]);
            for &c1 in &b {
                for &c0 in &b {
                    let f = compose([c0, c1, c2, c3]);
                    if f != 0 {
                        one_arm64(&mut acc, a0, Some(tramp0), f, None, Backend::Arm64Linux, false);
                    }
                }
            }
        }
        "bool" => {
            for v in [false, true] {
                for t in [tramp0, T64 + 0x20_0000, T64 - WIN + 0x1000, T64 + WIN - 0x1000] {
                    one_arm64(&mut acc, a0, Some(t), 0, Some(v), Backend::Arm64Linux, true);
                }
            }
        }
        "entry-pages" | "entry-pages-sparse" => {
            let sparse = c["block"] == "entry-pages-sparse";
            for d in c["dlo"].as_i64().unwrap()..c["dhi"].as_i64().unwrap() {
                if d == 0 || d == 1 || d == -1 {
                    continue; // the target's own pages
                }
                if sparse && d % 61 != 0 && d.abs() < 32700 {
                    continue;
                }
                let t = (T64 as i64 + d * 4096) as u64;
                let offs: Vec<u64> = if sparse { vec![0, 4, 0x7FC, 0xFFC] } else { (0..1024).map(|k| k * 4).collect() };
                for o in offs {
                    let a = T64 + o;
                    if !sparse || o == 0 {
                        prep_target64(a);
                    } else {
                        prep_target64(a);
                    }
                    one_arm64(&mut acc, a, Some(t), 0x0000_7F12_3456_7890, None, Backend::Arm64Linux, d % 509 == 0 && o == 0);
                }
            }
        }
        "entry-boundary" => {
            let mut ds: Vec<i64> = Vec::new();
            for k in -64..=64i64 {
                ds.push(k * 4 + 0x2000 * k.signum());
                ds.push(-(WIN as i64) + k * 4);
                ds.push(WIN as i64 + k * 4);
            }
            for k in 3..28 {
                for e in [-4i64, 0, 4] {
                    ds.push((1i64 << k) + e);
                    ds.push(-(1i64 << k) + e);
                }
            }
            ds.sort();
            ds.dedup();
            for d in ds {
                if d.abs() < 0x2000 {
                    continue;
                }
                if let Some((a, t)) = displacement_case(d) {
                    if t + 0x1000 > ARENA_HI || t < ARENA_LO {
                        continue;
                    }
                    prep_target64(a);
                    one_arm64(&mut acc, a, Some(t), 0x0000_7F12_3456_7890, None, Backend::Arm64Linux, true);
                }
            }
        }
        "entry-far" => {
            #[cfg(feature = "priv_arm64")]
            {
                acc.tag("priv-access");
                for d in far_displacements() {
                    far_entry(&mut acc, a0, d);
                }
            }
            #[cfg(not(feature = "priv_arm64"))]
            acc.tag("reduced:no-priv-access");
        }
        "mac-encoder" => {
            let k = c["k"].as_u64().unwrap();
            let of = c["of"].as_u64().unwrap();
            let dense = c["dense"].as_bool().unwrap();
            let lows: [u64; 12] = [0, 4, 8, 0x7F8, 0x7FC, 0x800, 0x804, 0xFF0, 0xFF4, 0xFF8, 0xFFC, 0x3FC]; // A64 code is word aligned
            let pcl: [u64; 12] = [0, 4, 8, 0x7FC, 0x800, 0x804, 0xFF0, 0xFF4, 0xFF8, 0xFFC, 0x100, 0x3FC];
            let total: i64 = 1 << 21;
            let per = total / of as i64;
            let (lo, hi) = (-(1i64 << 20) + k as i64 * per, -(1i64 << 20) + (k as i64 + 1) * per);
            let stride = if dense { 1 } else { 257 };
            let pc_page = 0x1_0000_0000u64 * 0x40; // 256 GiB: room for +/-4 GiB around it
            let mut pd = lo;
            while pd < hi {
                for (i, &tl) in lows.iter().enumerate() {
                    for (j, &pl) in pcl.iter().enumerate() {
                        if !dense && (i + j) % 3 != 0 {
                            continue;
                        }
                        let pc = pc_page + pl;
                        let target = (pc_page as i64 + pd * 4096) as u64 + tl;
                        mac_check(&mut acc, pc, target);
                    }
                }
                pd += stride;
            }
        }
        "mac-boundary" => {
            let pc_page = 0x40_0000_0000u64;
            for pl in [0u64, 4, 0xFFC] {
                let pc = pc_page + pl;
                let mut ds: Vec<i128> = Vec::new();
                for k in -40..=40i128 {
                    ds.push((1i128 << 27) + k * 4);
                    ds.push(-(1i128 << 27) + k * 4);
                    ds.push((1i128 << 32) + k * 4);
                    ds.push(-(1i128 << 32) + k * 4);
                    ds.push(k * 4);
                    ds.push((1i128 << 32) - 4096 + k * 4);
                    ds.push(-(1i128 << 32) + 4096 + k * 4);
                }
                for k in 2..33 {
                    for e in [-4i128, 0, 4] {
                        ds.push((1i128 << k) + e);
                        ds.push(-(1i128 << k) + e);
                    }
                }
                for d in ds {
                    let t = pc as i128 + d;
                    if t > 0 && d != 0 && d % 4 == 0 {
                        mac_check(&mut acc, pc, t as u64);
                    }
                }
            }
            // beyond +/-4 GiB the ADRP immediate cannot hold the page difference: must refuse, not wrap
            for d in [(1i128 << 32) + 4096, (1i128 << 33), -(1i128 << 32) - 8192, (1i128 << 40), -(1i128 << 40)] {
                mac_check(&mut acc, 0x100_0000_0000, (0x100_0000_0000i128 + d) as u64);
            }
        }
        "mac-patch" => {
            // the macOS branch of apply_branch_patch through the (Linux) allocator: direct range only
            for t in [tramp0, T64 + 0x40_0000, T64 - WIN + 0x2000, T64 + WIN - 0x2000] {
                one_arm64(&mut acc, a0, Some(t), 0x0000_1234_5678_9ABC, None, Backend::Arm64MacEncoder, true);
            }
            #[cfg(feature = "priv_macsim")]
            for d in [0x1000_0000i64, -0x1000_0000, 0x7FFF_F000, -0x7FFF_F000, 0x4000_0000] {
                far_entry_mac(&mut acc, a0, d);
            }
        }
        other => panic!("unknown block {other}"),
    }
    acc.finish()
}

#[cfg(feature = "priv_arm64")]
fn far_displacements() -> Vec<i64> {
    let w = WIN as i64;
    let mut v = vec![];
    for k in [-8i64, -4, 0, 4, 8] {
        v.push(w + k);
        v.push(-w + k);
    }
    for k in [28u32, 29, 30, 31, 32, 36, 40] {
        v.push(1i64 << k);
        v.push(-(1i64 << k));
        v.push((1i64 << k) - 4);
    }
    v.extend([w + 0x1000, 2 * w, 3 * w, 4 * w - 4, -2 * w, -3 * w, -4 * w]);
    v
}

/// apply_branch_patch(src, jit at src+d) directly: out-of-range displacements must be refused
/// (panic, entry untouched); in-range ones must decode to a branch to exactly src+d.
#[cfg(feature = "priv_arm64")]
fn far_entry(acc: &mut Acc, a: u64, d: i64) {
    acc.steps += 1;
    prep_target64(a);
    let jit = (a as i64 + d) as u64;
    let pre = unsafe { arena::read(a - 16, 48) };
    let orig = unsafe { arena::read(a, 12) };
    model64(vec![]);
    let r = catch_unwind(AssertUnwindSafe(|| unsafe { vaccess::arm64_apply_branch_patch(a as usize, jit as usize, 20, &orig) }));
    match r {
        Err(_) => {
            acc.tag("far:refused");
            if unsafe { arena::read(a - 16, 48) } != pre {
                acc.viol("C15", "aarch64:refused-but-modified", format!("displacement {d:#x}: refused but entry bytes changed"));
                unsafe { arena::write_force(a - 16, &pre) };
            }
        }
        Ok(g) => {
            acc.tag("far:accepted");
            let w = u32::from_le_bytes(unsafe { arena::read(a, 4) }.try_into().unwrap());
            acc.word64(w);
            match vkit::a64::decode(w) {
                vkit::a64::Ins::B { off } if off == d => {}
                vkit::a64::Ins::B { off } => acc.viol("C15", "aarch64:displacement-wrapped", format!("trampoline at entry{d:+#x}: accepted, but the entry word {w:#010x} is `b #{off}` (lands {:#x} bytes from the trampoline)", off - d)),
                other => acc.viol("C15", "aarch64:entry-not-a-branch", format!("displacement {d:#x}: entry word {w:#010x} decodes to {other:?}")),
            }
            // do not run the guard's drop: it would munmap an address the allocator never returned
            std::mem::forget(g);
            unsafe { arena::write_force(a - 16, &pre) };
        }
    }
    venv::with(|e| e.errors.clear());
}

#[cfg(feature = "priv_macsim")]
fn far_entry_mac(acc: &mut Acc, a: u64, d: i64) {
    acc.steps += 1;
    prep_target64(a);
    let jit = (a as i64 + d) as u64;
    let pre = unsafe { arena::read(a - 16, 48) };
    let orig = unsafe { arena::read(a, 12) };
    model64(vec![]);
    let r = catch_unwind(AssertUnwindSafe(|| unsafe { vaccess::arm64mac_apply_branch_patch(a as usize, jit as usize, 20, &orig) }));
    if let Ok(g) = r {
        acc.tag("mac-patch:accepted");
        let bytes = unsafe { arena::read(a, 12) };
        let mem = |x: u64, n: usize| if x >= a && x + n as u64 <= a + 12 { Some(bytes[(x - a) as usize..(x - a) as usize + n].to_vec()) } else { None };
        let ours = |x: u64| x >= a && x < a + 12;
        let run = vkit::a64::run(a, &mem, &ours, 6);
        match &run.stop {
            vkit::a64::Stop::Left { pc } if *pc == jit => {}
            other => acc.viol("C15", "aarch64-macos:patch-wrong-destination", format!("macOS entry patch for displacement {d:#x}: {other:?} after [{}]", run.trace.join("; "))),
        }
        std::mem::forget(g);
        unsafe { arena::write_force(a - 16, &pre) };
    } else {
        acc.tag("mac-patch:refused");
    }
    venv::with(|e| e.errors.clear());
}

// ---------------------------------------------------------------------------------------------
// 32-bit ARM (C16)

pub const BASES32: [u32; 3] = [0x0001_0000, 0x7FFF_E000, 0xFFFE_0000];

fn fakes32() -> Vec<u32> {
    let mut v = BTreeSet::new();
    for bg in [0x0000_0000u32, 0xFFFF_FFFC, 0x5A5A_5A58] {
        for byte in 0..4 {
            for val in 0..256u32 {
                let f = (bg & !(0xFF << (8 * byte))) | (val << (8 * byte));
                for tb in [0u32, 1] {
                    let f2 = if tb == 1 { (f & !1) | 1 } else { f & !3 };
                    if f2 > 1 {
                        v.insert(f2);
                    }
                }
            }
        }
    }
    v.into_iter().collect()
}

pub fn c16_cases(tier: &str) -> Vec<Value> {
    let mut v = Vec::new();
    for (bi, _) in BASES32.iter().enumerate() {
        for entry_case in ["A32", "T32-0", "T32-2"] {
            let nblocks = 16;
            for k in 0..nblocks {
                v.push(json!({"block": "c16", "base": bi, "case": entry_case, "k": k, "of": nblocks, "dense": tier == "thorough"}));
            }
        }
    }
    v
}

fn mem32(a: u32, n: usize) -> Option<Vec<u8>> {
    venv::safe_read(a as u64, n)
}

pub fn c16_exec(c: &Value) -> Value {
    let mut acc = Acc::new();
    if !vaccess::has(Backend::Arm32) {
        acc.tag("reduced:seam-unavailable:arm32-backend");
        return acc.finish();
    }
    let base = BASES32[c["base"].as_u64().unwrap() as usize] as u64;
    let ecase = c["case"].as_str().unwrap();
    let dense = c["dense"].as_bool().unwrap();
    let (k, of) = (c["k"].as_u64().unwrap(), c["of"].as_u64().unwrap());
    // two pages of "code" (second one so that a 12-byte entry may straddle), r-x as code is
    arena::map_fixed(base, 0x3000, arena::RW).expect("arm32 target pages");
    let fill: Vec<u8> = (0..0x3000u32).map(|i| (i.wrapping_mul(2654435761) >> 24) as u8).collect();
    unsafe { arena::write(base, &fill) };
    arena::protect(base, 0x3000, arena::RX);
    venv::reset();
    venv::with(|e| e.log_enabled = false);
    let fakes = fakes32();
    let (align, thumb) = match ecase {
        "A32" => (0u64, false),
        "T32-0" => (0, true),
        _ => (2, true),
    };
    let positions: Vec<u64> = (0..1024u64).map(|i| i * 4 + align).filter(|p| (p / 4) % of == k).collect();
    for (pi, &pos) in positions.iter().enumerate() {
        let entry = base + 0x1000 - 0x800 + pos; // positions cover [page-0x800, page+0x800): the middle ones straddle the page boundary
        let entry = if pos >= 0x800 { base + 0x1000 - 0x800 + pos } else { entry };
        // fakes: all of them for a few positions, a rotating subset elsewhere
        let fs: Vec<u32> = if dense || pi < 2 || (entry & 0xFFF) >= 0xFF4 && (entry & 0xFFF) <= 0xFFE {
            fakes.clone()
        } else {
            fakes.iter().copied().skip(pi % 97).step_by(97).collect()
        };
        for f in fs {
            // instruction-set state of the fake: bit 0; an ARM-state fake must be word aligned
            acc.steps += 1;
            let src = entry | thumb as u64;
            let pre = unsafe { arena::read(entry - 16, 48) };
            let flush_check = (f >> 3) % 61 == 0;
            if flush_check {
                venv::with(|e| {
                    e.log_enabled = true;
                    e.log.clear();
                });
            }
            let r = catch_unwind(AssertUnwindSafe(|| unsafe { vaccess::replace(Backend::Arm32, src as usize, f as usize) }));
            match r {
                Err(p) => {
                    acc.tag("refused");
                    if unsafe { arena::read(entry - 16, 48) } != pre {
                        acc.viol("C16", "arm32:refused-but-modified", format!("installation refused ({}) but bytes changed", panic_text(p.as_ref())));
                    }
                }
                Ok(g) => {
                    acc.tag(&format!("installed:{ecase}"));
                    let now = unsafe { arena::read(entry - 16, 48) };
                    if flush_check {
                        acc.tag("flush-oracle");
                        let log = venv::take_log();
                        if let Some(m) = flush_gaps(&log, entry - 16, &pre, &now) {
                            acc.viol("C17", &format!("arm32:{ecase}:written-not-flushed"), format!("installation at {entry:#x}: {m}"));
                        }
                    }
                    // bytes changed must lie in [entry, entry+12)
                    for i in 0..48usize {
                        if now[i] != pre[i] && !(16..28).contains(&i) {
                            acc.viol("C16", &format!("arm32:{ecase}:write-outside-12-bytes"), format!("entry {entry:#x}: byte at entry{:+} changed", i as i64 - 16));
                            break;
                        }
                    }
                    let lo = (entry - 16) as u32;
                    let ours = |a: u32| a as u64 >= entry && (a as u64) < entry + 12;
                    let run = vkit::a32::run(src as u32, &mem32, &ours, 6);
                    let _ = lo;
                    use vkit::a32::Stop;
                    match &run.stop {
                        Stop::Left { pc, thumb: t } if *pc == (f & !1) && *t == (f & 1 == 1) => {
                            // the word actually read by the load must be the one holding the fake's address
                            match run.literal_reads.first() {
                                Some(&la) => {
                                    let w = u32::from_le_bytes(mem32(la, 4).unwrap().try_into().unwrap());
                                    if w != f {
                                        acc.viol("C16", &format!("arm32:{ecase}:literal-mismatch"), format!("entry {entry:#x} fake {f:#x}: literal at {la:#x} holds {w:#x}"));
                                    }
                                    if (la as u64) < entry || (la as u64) + 4 > entry + 12 {
                                        acc.viol("C16", &format!("arm32:{ecase}:literal-outside-patch"), format!("entry {entry:#x}: literal read at {la:#x}"));
                                    }
                                }
                                None => {}
                            }
                        }
                        Stop::Left { pc, thumb: t } => acc.viol("C16", &format!("arm32:{ecase}:wrong-destination"), format!("entry {entry:#x} ({ecase}) fake {f:#x}: control reaches {pc:#x} in {} state (path: {})", if *t { "Thumb" } else { "ARM" }, run.trace.join("; "))),
                        Stop::Unknown { pc, bytes, .. } => acc.viol("UNDECIDED", "arm32:unknown-instruction", format!("decoder does not know {bytes:02x?} at {pc:#x}")),
                        other => acc.viol("C16", &format!("arm32:{ecase}:control-goes-elsewhere"), format!("entry {entry:#x} ({ecase}) fake {f:#x}: {other:?} (path: {})", run.trace.join("; "))),
                    }
                    let bad = run.written & vkit::a32::CALLEE_SAVED;
                    if bad != 0 {
                        for rnum in 0..16 {
                            if bad & (1 << rnum) != 0 {
                                let state = if thumb { "T32" } else { "A32" };
                                acc.viol("C16", &format!("arm32:{state}:scratch=r{rnum}"), format!("the {state} sequence [{}] writes r{rnum}, which the procedure-call standard requires a callee to preserve", run.trace.join("; ")));
                            }
                        }
                    }
                    if run.read_initial & !0x0100 != 0 {
                        acc.viol("C16", &format!("arm32:{ecase}:reads-caller-register"), format!("sequence reads caller registers mask {:#x}", run.read_initial));
                    }
                    if acc.words.len() < 20_000 {
                        // cross-check material: the instruction halfwords / words of the patch
                        let b = unsafe { arena::read(entry, 12) };
                        if thumb {
                            let mut i = 0;
                            let lit = run.literal_reads.first().map(|&l| (l as u64 - entry) as usize).unwrap_or(12);
                            while i + 2 <= lit.min(12) {
                                let h = u16::from_le_bytes([b[i], b[i + 1]]);
                                let (ins, len) = vkit::a32::decode_t32(h, if i + 4 <= 12 { Some(u16::from_le_bytes([b[i + 2], b[i + 3]])) } else { None });
                                if let Some(r) = vkit::a32::render(ins, true) {
                                    let hex: String = b[i..i + len as usize].iter().map(|x| format!("{x:02x}")).collect();
                                    acc.words.insert(format!("t32|{hex}|{r}"));
                                }
                                if matches!(ins, vkit::a32::Ins::Bx { .. }) {
                                    break;
                                }
                                i += len as usize;
                            }
                        } else {
                            for i in [0usize, 4] {
                                let w = u32::from_le_bytes(b[i..i + 4].try_into().unwrap());
                                if let Some(r) = vkit::a32::render(vkit::a32::decode_a32(w), false) {
                                    let hex: String = b[i..i + 4].iter().map(|x| format!("{x:02x}")).collect();
                                    acc.words.insert(format!("a32|{hex}|{r}"));
                                }
                            }
                        }
                    }
                    drop(g);
                    if flush_check {
                        let log = venv::take_log();
                        let after = unsafe { arena::read(entry - 16, 48) };
                        if let Some(m) = flush_gaps(&log, entry - 16, &now, &after) {
                            acc.viol("C17", &format!("arm32:{ecase}:restored-not-flushed"), format!("removal of the installation at {entry:#x}: {m}"));
                        }
                        venv::with(|e| e.log_enabled = false);
                    }
                    if unsafe { arena::read(entry - 16, 48) } != pre {
                        acc.viol("C16", &format!("arm32:{ecase}:not-restored"), format!("entry {entry:#x}: bytes differ from the pre-image after the guard was dropped (saved bytes do not cover the overwritten range)"));
                        arena::protect(base, 0x3000, arena::RW);
                        unsafe { arena::write(entry - 16, &pre) };
                    }
                }
            }
        }
        // code pages go back to r-x between positions so that page-coverage of mprotect is exercised
        arena::protect(base, 0x3000, arena::RX);
    }
    arena::unmap(base, 0x3000);
    acc.finish()
}

// ---------------------------------------------------------------------------------------------
// allocator scan (C11) for both 64-bit back-ends

pub fn c11_cases(tier: &str) -> Vec<Value> {
    let mut v = Vec::new();
    let bases: [u64; 5] = [0x1_1000, 0x400_0000, 0x7FF_E000, 0x4000_0000, 0x7F00_0000_0000];
    for backend in ["amd64", "arm64"] {
        let pss: &[u64] = if backend == "arm64" { &[4096, 16384, 65536] } else { &[4096] };
        for &ps in pss {
            for &b in &bases {
                for off in [0u64, 4, 0x7FC, 0xFFC] {
                    if backend == "arm64" && off == 0xFFC {
                        // a 12-byte A64 entry at 0xFFC straddles: fine, second page is mapped
                    }
                    v.push(json!({"block": "c11-layouts", "backend": backend, "ps": ps, "base": b, "off": off}));
                    let n = 2 * (WIN / ps) as i64 + 1;
                    let nblk = if tier == "thorough" && ps == 4096 && (b == 0x4000_0000 || b == 0x400_0000) && (off == 0 || off == 0x7FC) { 64 } else { 1 };
                    for k in 0..nblk {
                        v.push(json!({"block": "c11-one-free", "backend": backend, "ps": ps, "base": b, "off": off, "k": k, "of": nblk, "dense": nblk > 1, "n": n}));
                    }
                    v.push(json!({"block": "c11-deviations", "backend": backend, "ps": ps, "base": b, "off": off, "depth": if tier == "thorough" { 2 } else { 1 }}));
                }
            }
        }
    }
    v
}

struct Scan {
    backend: Backend,
    is_arm: bool,
    ps: u64,
    a: u64,
}

fn scan_once(acc: &mut Acc, s: &Scan, layout: venv::Layout, script: Vec<venv::Answer>, label: &str) -> u64 {
    acc.steps += 1;
    let tpage = s.a & !(s.ps - 1);
    venv::reset();
    venv::with(|e| {
        let mut m = venv::Model::new(s.ps);
        m.layout = layout;
        m.back_far = false;
        m.far_next = if s.a < 0x3000_0000_0000 { 0x6800_0000_0000 } else { 0x2800_0000_0000 };
        m.occupied.push((tpage, tpage + 2 * s.ps.max(0x2000)));
        for x in script {
            m.script.push_back(x);
        }
        e.model = Some(m);
        e.log_enabled = false;
    });
    let pre = unsafe { arena::read(s.a - 16.min(s.a - tpage), 48) };
    let lo = s.a - 16.min(s.a - tpage);
    let r = catch_unwind(AssertUnwindSafe(|| unsafe { vaccess::replace(s.backend, s.a as usize, 0x0000_7E00_1234_5678) }));
    let owned: Vec<(u64, u64, bool)> = venv::with(|e| e.owned.iter().map(|(a, (l, b))| (*a, *l, *b)).collect());
    let n_mmap = venv::with(|e| e.n_mmap);
    let bname = if s.is_arm { "aarch64" } else { "x86_64" };
    for e in venv::with(|e| std::mem::take(&mut e.errors)) {
        if e.starts_with("machinery") {
            acc.viol("MACHINERY", "env", e);
        } else {
            acc.viol("C11", &format!("{bname}:bad-unmap"), format!("{label}: {e}"));
        }
    }
    match r {
        Err(p) => {
            acc.tag("refused");
            let msg = panic_text(p.as_ref());
            if unsafe { arena::read(lo, 48) } != pre {
                acc.viol("C11", &format!("{bname}:refused-but-modified"), format!("{label}: installation panicked ({msg}) but the function's bytes changed"));
            }
            if !owned.is_empty() {
                let where_: Vec<String> = owned.iter().map(|o| format!("{:#x}", o.0)).collect();
                let in_reach = owned.iter().any(|o| o.0.abs_diff(s.a) <= WIN);
                let key = if in_reach { format!("{bname}:page-accepted-then-refused-left-mapped") } else { format!("{bname}:rejected-placement-left-mapped") };
                acc.viol("C11", &key, format!("{label}: installation panicked ({msg}) and left mapping(s) {where_:?} it had obtained"));
            }
        }
        Ok(g) => {
            acc.tag("installed");
            // exactly one mapping is kept, and the entry branches to exactly it
            let kept: Vec<&(u64, u64, bool)> = owned.iter().collect();
            if kept.len() != 1 {
                let where_: Vec<String> = owned.iter().map(|o| format!("{:#x}", o.0)).collect();
                acc.viol("C11", &format!("{bname}:rejected-placement-left-mapped"), format!("{label}: after a successful installation {} mappings are owned: {where_:?}", kept.len()));
            }
            let mem = |x: u64, n: usize| venv::safe_read(x, n);
            if s.is_arm {
                let w = u32::from_le_bytes(unsafe { arena::read(s.a, 4) }.try_into().unwrap());
                let dest = match vkit::a64::decode(w) {
                    vkit::a64::Ins::B { off } => Some(s.a.wrapping_add(off as u64)),
                    _ => None,
                };
                if !owned.iter().any(|o| Some(o.0) == dest) {
                    acc.viol("C11", &format!("{bname}:trampoline-out-of-reach"), format!("{label}: entry word {w:#010x} branches to {dest:x?}, the trampoline the allocator kept is at {:x?} ({:+#x} from the function)", owned.iter().map(|o| o.0).collect::<Vec<_>>(), owned.first().map(|o| o.0 as i64 - s.a as i64).unwrap_or(0)));
                }
            } else {
                let ours = |x: u64| x >= s.a && x < s.a + 16;
                let run = vkit::x64::run(s.a, &mem, &ours, 2);
                let dest = match run.stop {
                    vkit::x64::Stop::Left { pc } => Some(pc),
                    _ => None,
                };
                if !owned.iter().any(|o| Some(o.0) == dest) {
                    acc.viol("C11", &format!("{bname}:trampoline-out-of-reach"), format!("{label}: the entry leads to {dest:x?}, the trampoline the allocator kept is at {:x?}", owned.iter().map(|o| o.0).collect::<Vec<_>>()));
                }
            }
            drop(g);
            if unsafe { arena::read(lo, 48) } != pre {
                acc.viol("C02", &format!("{bname}:not-restored"), format!("{label}: not restored"));
            }
        }
    }
    // give back whatever is still owned (only happens on violations)
    venv::with(|e| {
        let keys: Vec<u64> = e.owned.keys().copied().collect();
        for k in keys {
            let (l, b) = e.owned.remove(&k).unwrap();
            if b {
                arena::unmap(k, l);
            }
        }
    });
    n_mmap
}

pub fn c11_exec(c: &Value) -> Value {
    let mut acc = Acc::new();
    let is_arm = c["backend"] == "arm64";
    let ps = c["ps"].as_u64().unwrap();
    let base = c["base"].as_u64().unwrap();
    let a = base + c["off"].as_u64().unwrap();
    let s = Scan { backend: if is_arm { Backend::Arm64Linux } else { Backend::Amd64 }, is_arm, ps, a };
    if !vaccess::has(s.backend) {
        acc.tag("reduced:seam-unavailable:aarch64-backend");
        return acc.finish();
    }
    // target: map generously so that a model page (up to 64 KiB) around the entry is real memory
    let tpage = a & !(ps - 1);
    let span = 2 * ps.max(0x2000);
    if arena::map_fixed(tpage, span, arena::RW).is_err() {
        acc.tag("skipped:target-unavailable");
        return acc.finish();
    }
    unsafe {
        std::ptr::write_bytes(tpage as *mut u8, 0xCC, span as usize);
        arena::write(a, &arena::x64_ret_const(0x1111_0000, 16));
    }
    arena::protect(tpage, span, arena::RX);
    let win_lo = a.saturating_sub(WIN);
    let first_hint_page = |k: i64| -> Option<u64> {
        // k-th page of the window counted from its lower end, as the allocator walks it
        let h = win_lo as i128 + k as i128 * ps as i128;
        if h < 0 || h as u64 > a + WIN {
            return None;
        }
        let mut p = (h as u64) / ps * ps;
        if p < 0x1_0000 {
            p = 0x1_0000 / ps * ps;
            if p == 0 {
                p = ps;
            }
        }
        Some(p)
    };
    match c["block"].as_str().unwrap() {
        "c11-layouts" => {
            scan_once(&mut acc, &s, venv::Layout::Empty, vec![], "neighbourhood empty");
            let n = scan_once(&mut acc, &s, venv::Layout::Full, vec![], "neighbourhood full");
            acc.tag(&format!("full-scan-mmap-calls:{n}"));
        }
        "c11-one-free" => {
            let n = c["n"].as_i64().unwrap();
            let (k, of) = (c["k"].as_i64().unwrap(), c["of"].as_i64().unwrap());
            let dense = c["dense"].as_bool().unwrap();
            let idx: Vec<i64> = if dense {
                (0..n).filter(|i| i % of == k).collect()
            } else {
                let mut v: Vec<i64> = Vec::new();
                for j in 0..=8 {
                    v.push(j);
                    v.push(n - 1 - j);
                    v.push(n / 2 - 4 + j);
                }
                let mut x = 1;
                while x < n {
                    v.push(x);
                    v.push(n - 1 - x);
                    x *= 2;
                }
                let stride = (n / 160).max(1);
                v.extend((0..n).step_by(stride as usize));
                v.sort();
                v.dedup();
                v.into_iter().filter(|i| *i >= 0 && *i < n).collect()
            };
            for i in idx {
                let Some(p) = first_hint_page(i) else { continue };
                if p >= tpage && p < tpage + span {
                    continue; // the function's own pages are occupied by definition
                }
                // the free page must really be mappable in this process to back the trampoline
                let delta = p as i64 - (a & !(ps - 1)) as i64;
                scan_once(&mut acc, &s, venv::Layout::FullExcept(vec![p]), vec![], &format!("full except one free page at {delta:+#x} from the function's page (page size {ps})"));
            }
            // the page just beyond either end of the window is out of reach: must end in a clean failure
            for p in [(a + WIN) / ps * ps + ps, (a.saturating_sub(WIN) / ps * ps).saturating_sub(ps)] {
                if p >= 0x1_0000 && !(p >= tpage && p < tpage + span) {
                    scan_once(&mut acc, &s, venv::Layout::FullExcept(vec![p]), vec![], &format!("only free page {p:#x} lies outside the window"));
                }
            }
        }
        "c11-deviations" => {
            // default run in a full-but-one layout, then every single deviation of the kernel's answer
            // at the first few and the last few calls: MAP_FAILED, an in-window page, a far page
            let free = first_hint_page(40).unwrap_or(tpage + span + 40 * ps);
            let free = if free >= tpage && free < tpage + span { tpage + span + ps } else { free };
            let inwin = first_hint_page(90).filter(|p| !(*p >= tpage && *p < tpage + span)).unwrap_or(tpage + span + 4 * ps);
            let far = 0x2000_0000_0000u64;
            let menu = [venv::Answer::Fail, venv::Answer::At(inwin), venv::Answer::At(far)];
            let depth = c["depth"].as_u64().unwrap();
            let npos = 44usize;
            for p1 in 0..npos {
                for a1 in menu.iter() {
                    let mut script = vec![venv::Answer::Default; p1];
                    script.push(*a1);
                    scan_once(&mut acc, &s, venv::Layout::FullExcept(vec![free]), script.clone(), &format!("one free page; kernel answers call #{p1} with {a1:?}"));
                    if depth >= 2 && p1 < 6 {
                        for p2 in (p1 + 1)..(p1 + 4) {
                            for a2 in menu.iter() {
                                let mut s2 = script.clone();
                                s2.resize(p2, venv::Answer::Default);
                                s2.push(*a2);
                                scan_once(&mut acc, &s, venv::Layout::FullExcept(vec![free]), s2, &format!("one free page; kernel answers call #{p1} with {a1:?} and call #{p2} with {a2:?}"));
                            }
                        }
                    }
                }
            }
            // every mmap fails
            let mut all_fail = Vec::new();
            all_fail.resize(200_000, venv::Answer::Fail);
            scan_once(&mut acc, &s, venv::Layout::Empty, all_fail, "every mmap fails");
        }
        other => panic!("unknown block {other}"),
    }
    arena::unmap(tpage, span);
    acc.finish()
}

pub fn main(a: &Args) -> i32 {
    let replay_case = a.replay.as_ref().map(|f| {
        let v: Value = vkit::serde_json::from_str(&std::fs::read_to_string(f).expect("replay file")).expect("json");
        v["case"].clone()
    });
    let (cases, exec): (Vec<Value>, &dyn Fn(&Value) -> Value) = match a.check.as_str() {
        "c15" => (c15_cases(&a.tier), &c15_exec),
        "c16" => (c16_cases(&a.tier), &c16_exec),
        _ => (c11_cases(&a.tier), &c11_exec),
    };
    let cases = match replay_case {
        Some(c) => vec![c.clone(), c],
        None => cases,
    };
    let domain = json!({"blocks": cases.len()});
    crate::run_cases(a, &a.check, cases, 1, exec, domain)
}
