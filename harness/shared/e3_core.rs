//! E3 (history explorer) — the world the histories act on: targets, fakes, installation of every
//! flavour through the *public* API, observation.  Compiled twice: against the mounted crate
//! (bin `e3`) and against the unmodified crate (bin `e3real`, conformance replay).
use crate::envx;
use crate::inj;
use crate::inj::interface::injector::*;
use std::future::Future;
use std::pin::Pin;
use std::task::{Context, Poll, RawWaker, RawWakerVTable, Waker};
use vkit::arena;

// ---------------------------------------------------------------------------------------------
// targets

#[derive(Clone, Copy, PartialEq, Eq, Hash, Debug, PartialOrd, Ord)]
#[repr(u8)]
pub enum T {
    /// synthetic `fn() -> u32` in the arena, slot 8
    F0 = 0,
    /// its neighbour 16 bytes further, slot 9
    F1 = 1,
    /// synthetic `fn() -> bool` (returns eax = 0x100A when unfaked), slot 10
    B0 = 2,
    /// as-linked Rust function `g(u32) -> u32`
    G = 3,
    /// a libc function (far from every Rust fake: long trampoline form)
    C = 4,
    /// `async fn a0(u32) -> u32`
    A0 = 5,
    /// synthetic `fn() -> u32` whose first bytes straddle two pages (second page r-x)
    FS = 6,
    /// synthetic thunk `jmp [rip+0]` forwarding to slot 14 (a thin wrapper: faking it must not touch slot 14)
    TH = 7,
    /// two synthetic 6-byte functions packed 8 bytes apart (no alignment padding between them)
    P0 = 8,
    P1 = 9,
    /// synthetic page-aligned `fn() -> u32` exactly 128 MiB above the arena, so that the
    /// allocator's first hint is an occupied page holding foreign code
    PA = 10,
    /// a second synthetic `fn() -> bool`, slot 4
    B1 = 11,
    /// synthetic forwarder `jmp rel32` to slot 1 (an optimised tail-call wrapper), slot 2
    TJ = 12,
}
pub const NT: usize = 13;
pub const ALL_T: [T; NT] = [T::F0, T::F1, T::B0, T::G, T::C, T::A0, T::FS, T::TH, T::P0, T::P1, T::PA, T::B1, T::TJ];
pub const PA_ADDR: u64 = ARENA + 0x800_0000;
/// a synthetic function in a page of its own that is only ever the target of refused installations
pub const RT_ADDR: u64 = PA_ADDR + 0x10_0000;
/// a synthetic function whose first bytes straddle two pages of its own (3 bytes on the first, the rest on
/// the second); only ever the target of refused installations (the second page refuses to become writable)
pub const RS_BASE: u64 = RT_ADDR + 0x10_0000;
pub const RS_ADDR: u64 = RS_BASE + 0x1000 - 3;
pub const PACKED: u64 = ARENA + 0xA00;

/// installation flavours
#[derive(Clone, Copy, PartialEq, Eq, Hash, Debug, PartialOrd, Ord)]
#[repr(u8)]
pub enum K {
    RawA = 0,
    RawB = 1,
    Closure = 2,
    Fake = 3,
    Unchecked = 4,
    BoolT = 5,
    BoolF = 6,
    AsyncV1 = 7,
    AsyncV2 = 8,
    /// `fake!` with a call-count expectation that is never met: the injector's scope exit panics
    FakeTimesUnmet = 9,
}

pub const ARENA: u64 = 0x2000_0000;
pub const ARENA_LEN: u64 = 0x3000;
pub const SLOT0: u64 = ARENA + 0x780;
pub const NSLOTS: usize = 16;
/// straddling target: 2 bytes before the end of the arena's second page
pub const FS_ADDR: u64 = ARENA + 0x2000 - 2;

pub fn slot_addr(i: usize) -> u64 {
    SLOT0 + 16 * i as u64
}

#[inline(never)]
pub fn g(x: u32) -> u32 {
    let y = std::hint::black_box(x);
    std::hint::black_box(y.wrapping_mul(1).wrapping_add(100))
}
/// sibling of `g` that is never faked
#[inline(never)]
pub fn g_sibling(x: u32) -> u32 {
    let y = std::hint::black_box(x);
    std::hint::black_box(y.wrapping_mul(3).wrapping_add(7))
}
#[inline(never)]
pub fn generic<X: Copy + Into<u64>>(x: X) -> u64 {
    std::hint::black_box(x.into()).wrapping_add(std::mem::size_of::<X>() as u64 * 1000)
}

pub static BODY_RUNS: std::sync::atomic::AtomicUsize = std::sync::atomic::AtomicUsize::new(0);

pub async fn a0(x: u32) -> u32 {
    BODY_RUNS.fetch_add(1, std::sync::atomic::Ordering::SeqCst);
    x + 1
}
/// sibling async function with the same output type, never faked
pub async fn a1(x: u32) -> u32 {
    BODY_RUNS.fetch_add(1, std::sync::atomic::Ordering::SeqCst);
    x + 2
}

// fakes (one per target and flavour so that "whose fake ran" is visible in the value)
macro_rules! fk0 {
    ($n:ident, $v:expr) => {
        #[inline(never)]
        pub fn $n() -> u32 {
            std::hint::black_box($v)
        }
    };
}
fk0!(fk_f0_a, 0xA0);
fk0!(fk_f0_b, 0xB0);
fk0!(fk_f0_u, 0xC0);
fk0!(fk_f1_a, 0xA1);
fk0!(fk_fs_a, 0xA6);
fk0!(fk_fs_b, 0xB6);
fk0!(fk_th_a, 0xA7);
fk0!(fk_p0_a, 0xA8);
fk0!(fk_p1_a, 0xA9);
fk0!(fk_pa_a, 0xAA);
fk0!(fk_tj_a, 0xAB);
#[inline(never)]
pub fn fk_b0_a() -> bool {
    std::hint::black_box(true)
}
#[inline(never)]
pub fn fk_g_a(_x: u32) -> u32 {
    std::hint::black_box(0xA3)
}
#[inline(never)]
pub unsafe extern "C" fn fk_c_a(_x: *const libc::c_char) -> libc::c_int {
    std::hint::black_box(0xA4)
}
pub type AtoiFn = unsafe extern "C" fn(*const libc::c_char) -> libc::c_int;
pub type AtolFn = unsafe extern "C" fn(*const libc::c_char) -> libc::c_long;

pub fn orig(t: T) -> u32 {
    match t {
        T::F0 => 0x1008,
        T::F1 => 0x1009,
        T::B0 => 0x100A,
        T::G => 105,
        T::C => 3,
        T::A0 => 6,
        T::FS => 0x10F5,
        T::TH => 0x100E,
        T::P0 => 0x2000,
        T::P1 => 0x2001,
        T::PA => 0x3000,
        T::B1 => 0x1004,
        T::TJ => 0x1001,
    }
}

/// value a call returns while flavour `k` is in effect on `t`
pub fn faked(t: T, k: K) -> u32 {
    match (t, k) {
        (T::F0, K::RawA) => 0xA0,
        (T::F0, K::RawB) => 0xB0,
        (T::F0, K::Fake) => 0xF0,
        (T::F0, K::Unchecked) => 0xC0,
        (T::F0, K::FakeTimesUnmet) => 0xF1,
        (T::F1, K::RawA) => 0xA1,
        (T::F1, K::Closure) => 0xC1,
        (T::B0, K::BoolT) => 1,
        (T::B0, K::BoolF) => 0,
        (T::B0, K::RawA) => 1,
        (T::G, K::RawA) => 0xA3,
        (T::G, K::Closure) => 0xC3,
        (T::C, K::RawA) => 0xA4,
        (T::A0, K::AsyncV1) => 71,
        (T::A0, K::AsyncV2) => 72,
        (T::FS, K::RawA) => 0xA6,
        (T::FS, K::RawB) => 0xB6,
        (T::TH, K::RawA) => 0xA7,
        (T::P0, K::RawA) => 0xA8,
        (T::P1, K::RawA) => 0xA9,
        (T::PA, K::RawA) => 0xAA,
        (T::TJ, K::RawA) => 0xAB,
        (T::B1, K::BoolT) => 1,
        (T::B1, K::BoolF) => 0,
        _ => panic!("harness: no such installation {t:?} {k:?}"),
    }
}

pub fn valid(t: T, k: K) -> bool {
    matches!(
        (t, k),
        (T::F0, K::RawA | K::RawB | K::Fake | K::Unchecked | K::FakeTimesUnmet)
            | (T::F1, K::RawA | K::Closure)
            | (T::B0 | T::B1, K::BoolT | K::BoolF)
            | (T::B0, K::RawA)
            | (T::G, K::RawA | K::Closure)
            | (T::C, K::RawA)
            | (T::A0, K::AsyncV1 | K::AsyncV2)
            | (T::FS, K::RawA | K::RawB)
            | (T::TH | T::P0 | T::P1 | T::PA | T::TJ, K::RawA)
    )
}

// ---------------------------------------------------------------------------------------------
// a minimal executor

fn noop_raw() -> RawWaker {
    fn clone(_: *const ()) -> RawWaker {
        noop_raw()
    }
    fn noop(_: *const ()) {}
    static VT: RawWakerVTable = RawWakerVTable::new(clone, noop, noop, noop);
    RawWaker::new(std::ptr::null(), &VT)
}

/// Poll to completion; returns (value, number of polls).
pub fn block_on<F: Future>(f: F) -> (F::Output, u32) {
    let waker = unsafe { Waker::from_raw(noop_raw()) };
    let mut cx = Context::from_waker(&waker);
    let mut f = std::pin::pin!(f);
    let mut polls = 0;
    loop {
        polls += 1;
        if let Poll::Ready(v) = f.as_mut().poll(&mut cx) {
            return (v, polls);
        }
        assert!(polls < 1000, "future never completes");
    }
}

pub fn poll_fn_addr<F: Future>(_f: &F) -> usize {
    let p: fn(Pin<&mut F>, &mut Context<'_>) -> Poll<F::Output> = <F as Future>::poll;
    p as *const () as usize
}

// ---------------------------------------------------------------------------------------------
// the world

pub struct World {
    /// entry address of each target
    pub addr: [u64; NT],
    /// 32-byte pre-image of each target entry (for FS: 16 bytes before the page end .. 16 after)
    pub pre: Vec<Vec<u8>>,
    /// pre-image of the whole arena
    pub arena_pre: Vec<u8>,
    /// include the page-straddling target
    pub with_fs: bool,
}

pub const IMG: usize = 32;

impl World {
    /// Build the arena and record pre-images.  Must run before the first installation.
    pub fn init(with_fs: bool) -> World {
        arena::map_fixed(ARENA, ARENA_LEN, arena::RW).expect("arena");
        unsafe {
            // fill with int3 so that any stray transfer traps
            std::ptr::write_bytes(ARENA as *mut u8, 0xCC, ARENA_LEN as usize);
            for i in 0..NSLOTS {
                arena::write(slot_addr(i), &arena::x64_ret_const(0x1000 + i as u32, 16));
            }
            arena::write(FS_ADDR, &arena::x64_ret_const(0x10F5, 16));
            // slot 13: jmp [rip+0] ; .quad slot 14
            let mut th = vec![0xFF, 0x25, 0, 0, 0, 0];
            th.extend_from_slice(&slot_addr(14).to_le_bytes());
            arena::write(slot_addr(13), &th);
            // slot 2: jmp rel32 -> slot 1
            let mut tj = vec![0xE9];
            tj.extend_from_slice(&((slot_addr(1) as i64 - (slot_addr(2) as i64 + 5)) as i32).to_le_bytes());
            arena::write(slot_addr(2), &tj);
            arena::write(PACKED, &arena::x64_ret_const(0x2000, 8));
            arena::write(PACKED + 8, &arena::x64_ret_const(0x2001, 8));
        }
        assert!(arena::protect(ARENA, ARENA_LEN, arena::RX));
        arena::map_fixed(PA_ADDR, 0x1000, arena::RW).expect("page-aligned target page");
        unsafe {
            std::ptr::write_bytes(PA_ADDR as *mut u8, 0xCC, 0x1000);
            arena::write(PA_ADDR, &arena::x64_ret_const(0x3000, 16));
        }
        assert!(arena::protect(PA_ADDR, 0x1000, arena::RX));
        arena::map_fixed(RT_ADDR, 0x1000, arena::RW).expect("refusal target page");
        unsafe {
            std::ptr::write_bytes(RT_ADDR as *mut u8, 0xCC, 0x1000);
            arena::write(RT_ADDR + 0x40, &arena::x64_ret_const(0x4000, 16));
        }
        assert!(arena::protect(RT_ADDR, 0x1000, arena::RX));
        arena::map_fixed(RS_BASE, 0x2000, arena::RW).expect("straddling refusal target pages");
        unsafe {
            std::ptr::write_bytes(RS_BASE as *mut u8, 0xCC, 0x2000);
            arena::write(RS_ADDR, &arena::x64_ret_const(0x4001, 16));
        }
        assert!(arena::protect(RS_BASE, 0x2000, arena::RX));
        let a0_addr = {
            let fut = a0(0);
            poll_fn_addr(&fut) as u64
        };
        let addr = [
            slot_addr(8),
            slot_addr(9),
            slot_addr(10),
            g as *const () as u64,
            libc::atoi as *const () as u64,
            a0_addr,
            FS_ADDR,
            slot_addr(13),
            PACKED,
            PACKED + 8,
            PA_ADDR,
            slot_addr(4),
            slot_addr(2),
        ];
        let mut w = World { addr, pre: Vec::new(), arena_pre: Vec::new(), with_fs };
        w.pre = ALL_T.iter().map(|&t| w.image(t)).collect();
        w.arena_pre = unsafe { arena::read(ARENA, ARENA_LEN as usize) };
        w
    }

    pub fn image(&self, t: T) -> Vec<u8> {
        unsafe { arena::read(self.addr[t as usize], IMG) }
    }

    /// Give every code page the harness knows the protection code normally has (r-x), so that a
    /// history never profits from a page an earlier history left writable.
    pub fn reprotect(&self) {
        assert!(arena::protect(ARENA, ARENA_LEN, arena::RX));
        assert!(arena::protect(PA_ADDR, 0x1000, arena::RX));
        assert!(arena::protect(RT_ADDR, 0x1000, arena::RX));
        assert!(arena::protect(RS_BASE, 0x2000, arena::RX));
        for &t in &[T::G, T::C, T::A0] {
            let a = self.addr[t as usize] & !0xFFF;
            arena::protect(a, 0x2000, arena::RX);
        }
    }

    /// Call the target the way a user would and return what came back (for A0 the awaited value).
    pub fn call(&self, t: T) -> u32 {
        let v = self.call_raw(t);
        // a `fn() -> bool` defines only the low byte of the result register
        if matches!(t, T::B0 | T::B1) && v != orig(t) {
            return v & 0xFF;
        }
        v
    }

    fn call_raw(&self, t: T) -> u32 {
        match t {
            T::F0 | T::F1 | T::B0 | T::B1 | T::FS | T::TH | T::P0 | T::P1 | T::PA | T::TJ => unsafe { arena::call_u32(self.addr[t as usize]) },
            T::G => g(5),
            T::C => unsafe {
                let f: AtoiFn = std::hint::black_box(libc::atoi as AtoiFn);
                f(std::hint::black_box(b"3\0".as_ptr() as *const libc::c_char)) as u32
            },
            T::A0 => block_on(a0(5)).0,
        }
    }

    /// Values of code that is never a target: arena neighbours on both sides, the sibling Rust
    /// function, another instantiation family, the sibling async function, a libc neighbour.
    pub fn call_non_targets(&self) -> Vec<u32> {
        let mut v = Vec::new();
        for i in [1usize, 6, 7, 11, 12, 14, 15] {
            v.push(unsafe { arena::call_u32(slot_addr(i)) });
        }
        v.push(g_sibling(5));
        v.push(generic::<u8>(1) as u32);
        v.push(generic::<u32>(1) as u32);
        v.push(block_on(a1(5)).0);
        v.push(unsafe {
            let f: AtolFn = std::hint::black_box(libc::atol as AtolFn);
            f(std::hint::black_box(b"9\0".as_ptr() as *const libc::c_char)) as u32
        });
        v
    }

    pub fn non_target_expect() -> Vec<u32> {
        vec![0x1001, 0x1006, 0x1007, 0x100B, 0x100C, 0x100E, 0x100F, 22, 1001, 4001, 7, 9]
    }
}

// ---------------------------------------------------------------------------------------------
// installation through the public API

pub fn as_fn0(addr: u64) -> fn() -> u32 {
    unsafe { std::mem::transmute::<usize, fn() -> u32>(addr as usize) }
}
fn as_fnb(addr: u64) -> fn() -> bool {
    unsafe { std::mem::transmute::<usize, fn() -> bool>(addr as usize) }
}

pub fn install(w: &World, injector: &mut InjectorPP, t: T, k: K) {
    let a = w.addr[t as usize];
    match (t, k) {
        (T::F0, K::RawA) => injector
            .when_called(inj::func!(as_fn0(a), fn() -> u32))
            .will_execute_raw(inj::func!(fk_f0_a, fn() -> u32)),
        (T::F0, K::RawB) => injector
            .when_called(inj::func!(func_info: fn(as_fn0(a))() -> u32))
            .will_execute_raw(inj::func!(fn(fk_f0_b)() -> u32)),
        (T::F0, K::Fake) => injector
            .when_called(inj::func!(as_fn0(a), fn() -> u32))
            .will_execute(inj::fake!(func_type: fn() -> u32, returns: 0xF0)),
        (T::F0, K::FakeTimesUnmet) => injector
            .when_called(inj::func!(as_fn0(a), fn() -> u32))
            .will_execute(inj::fake!(func_type: fn() -> u32, returns: 0xF1, times: 1000000000)),
        (T::F0, K::Unchecked) => unsafe {
            injector
                .when_called_unchecked(inj::func_unchecked!(as_fn0(a)))
                .will_execute_raw_unchecked(inj::func_unchecked!(fk_f0_u))
        },
        (T::F1, K::RawA) => injector
            .when_called(inj::func!(as_fn0(a), fn() -> u32))
            .will_execute_raw(inj::func!(fk_f1_a, fn() -> u32)),
        (T::F1, K::Closure) => injector
            .when_called(inj::func!(as_fn0(a), fn() -> u32))
            .will_execute_raw(inj::closure!(|| -> u32 { std::hint::black_box(0xC1) }, fn() -> u32)),
        (T::B0, K::RawA) => injector
            .when_called(inj::func!(as_fnb(a), fn() -> bool))
            .will_execute_raw(inj::func!(fk_b0_a, fn() -> bool)),
        (T::B0 | T::B1, K::BoolT) => injector.when_called(inj::func!(as_fnb(a), fn() -> bool)).will_return_boolean(true),
        (T::B0 | T::B1, K::BoolF) => injector.when_called(inj::func!(as_fnb(a), fn() -> bool)).will_return_boolean(false),
        (T::G, K::RawA) => injector
            .when_called(inj::func!(fn(g)(u32) -> u32))
            .will_execute_raw(inj::func!(fn(fk_g_a)(u32) -> u32)),
        (T::G, K::Closure) => injector
            .when_called(inj::func!(g, fn(u32) -> u32))
            .will_execute_raw(inj::closure!(|_x: u32| -> u32 { std::hint::black_box(0xC3) }, fn(u32) -> u32)),
        (T::C, K::RawA) => injector
            .when_called(inj::func!(unsafe{} extern "C" fn(libc::atoi)(*const libc::c_char) -> libc::c_int))
            .will_execute_raw(inj::func!(unsafe{} extern "C" fn(fk_c_a)(*const libc::c_char) -> libc::c_int)),
        (T::A0, K::AsyncV1) => injector
            .when_called_async(inj::async_func!(a0(u32::default()), u32))
            .will_return_async(inj::async_return!(71, u32)),
        (T::A0, K::AsyncV2) => unsafe {
            injector
                .when_called_async_unchecked(inj::async_func_unchecked!(a0(u32::default())))
                .will_return_async_unchecked(inj::async_return_unchecked!(72, u32))
        },
        (T::FS, K::RawA) => injector
            .when_called(inj::func!(as_fn0(a), fn() -> u32))
            .will_execute_raw(inj::func!(fk_fs_a, fn() -> u32)),
        (T::FS, K::RawB) => injector
            .when_called(inj::func!(as_fn0(a), fn() -> u32))
            .will_execute_raw(inj::func!(fk_fs_b, fn() -> u32)),
        (T::TH, K::RawA) => injector
            .when_called(inj::func!(as_fn0(a), fn() -> u32))
            .will_execute_raw(inj::func!(fk_th_a, fn() -> u32)),
        (T::P0, K::RawA) => injector
            .when_called(inj::func!(as_fn0(a), fn() -> u32))
            .will_execute_raw(inj::func!(fk_p0_a, fn() -> u32)),
        (T::P1, K::RawA) => injector
            .when_called(inj::func!(as_fn0(a), fn() -> u32))
            .will_execute_raw(inj::func!(fk_p1_a, fn() -> u32)),
        (T::PA, K::RawA) => injector
            .when_called(inj::func!(as_fn0(a), fn() -> u32))
            .will_execute_raw(inj::func!(fk_pa_a, fn() -> u32)),
        (T::TJ, K::RawA) => injector
            .when_called(inj::func!(as_fn0(a), fn() -> u32))
            .will_execute_raw(inj::func!(fk_tj_a, fn() -> u32)),
        _ => panic!("harness: no such installation {t:?} {k:?}"),
    }
}

/// Text of a caught panic payload.
pub fn payload_text(p: &(dyn std::any::Any + Send)) -> String {
    if let Some(s) = p.downcast_ref::<&'static str>() {
        s.to_string()
    } else if let Some(s) = p.downcast_ref::<String>() {
        s.clone()
    } else {
        "<non-string payload>".to_string()
    }
}

pub fn fnv(h: &mut u64, bytes: &[u8]) {
    for &b in bytes {
        *h ^= b as u64;
        *h = h.wrapping_mul(0x100000001b3);
    }
}

pub fn _unused() {
    let _ = envx::MOUNTED;
}
