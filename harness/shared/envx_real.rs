//! Environment access for harness bodies compiled against the *unmodified* crate: nothing is
//! interposed, so there is nothing to report.
pub const MOUNTED: bool = false;

#[derive(Clone, Copy, PartialEq, Eq, Debug)]
pub enum Kind {
    Mmap,
    Munmap,
    Mprotect,
    Sysconf,
    Flush,
}
#[derive(Clone, Debug)]
pub struct Call {
    pub kind: Kind,
    pub a: u64,
    pub b: u64,
    pub c: u64,
    pub ret: i64,
    pub snap: Option<Vec<u8>>,
    pub watch: Vec<Vec<u8>>,
}
pub fn reset() {}
pub fn take_log() -> Vec<Call> {
    Vec::new()
}
pub fn errors() -> Vec<String> {
    Vec::new()
}
pub fn owned_pages() -> Vec<(u64, u64)> {
    Vec::new()
}
pub fn fail_mmap_from(_n: Option<u64>) {}
pub fn fail_mprotect_at(_n: Option<u64>) {}
pub fn set_watch(_w: Vec<(u64, u64)>) {}
pub fn watch_snapshot() -> Vec<Vec<u8>> {
    Vec::new()
}
pub fn forget_owned() {}
pub fn fail_mprotect_range(_r: Option<(u64, u64)>) {}
