//! Environment access for harness bodies compiled against the *mounted* crate.
pub const MOUNTED: bool = true;
pub use crate::inj::vaccess::venv;
pub use crate::inj::vaccess::venv::{Call, Kind};

pub fn reset() {
    venv::reset()
}
pub fn take_log() -> Vec<Call> {
    venv::take_log()
}
pub fn errors() -> Vec<String> {
    venv::with(|e| std::mem::take(&mut e.errors))
}
pub fn owned_pages() -> Vec<(u64, u64)> {
    venv::with(|e| e.owned.iter().map(|(a, (l, _))| (*a, *l)).collect())
}
pub fn fail_mmap_from(n: Option<u64>) {
    venv::with(|e| e.mmap_fail_from = n.map(|k| e.n_mmap + k))
}
pub fn fail_mprotect_at(n: Option<u64>) {
    venv::with(|e| e.mprotect_fail_at = n.map(|k| e.n_mprotect + k))
}
pub fn set_watch(w: Vec<(u64, u64)>) {
    venv::with(|e| e.watch = w)
}
pub fn watch_snapshot() -> Vec<Vec<u8>> {
    venv::with(|e| e.watch_snapshot())
}
pub fn forget_owned() {
    venv::with(|e| {
        let keys: Vec<u64> = e.owned.keys().copied().collect();
        for k in keys {
            let (l, b) = e.owned.remove(&k).unwrap();
            if b {
                unsafe { libc_real_munmap(k, l) };
            }
        }
    })
}
unsafe fn libc_real_munmap(a: u64, l: u64) {
    vkit::arena::unmap(a, l);
}
pub fn fail_mprotect_range(r: Option<(u64, u64)>) {
    venv::with(|e| e.mprotect_fail_range = r)
}
