//! E3 entry point.  usage: e3 <family> [--depth D] [--shard I/N] [--small] [--fs] [--text] [--flush]
//!                         [--replay FILE] [--digests FILE] [--per-child N]
use crate::e3_core::*;
use crate::e3_hist;
use crate::e3_times;
use crate::e3_async;
use vkit::isolate::{self, Outcome};
use vkit::serde_json::{json, Value};

pub struct Args {
    pub family: String,
    pub depth: usize,
    pub shard: (usize, usize),
    pub small: bool,
    pub fs: bool,
    pub text: bool,
    pub flush: bool,
    pub replay: Option<String>,
    pub digests: Option<String>,
    pub per_child: usize,
    pub extra: Vec<String>,
}

pub fn parse_args() -> Args {
    let mut a = Args {
        family: String::new(),
        depth: 3,
        shard: (0, 1),
        small: false,
        fs: false,
        text: false,
        flush: false,
        replay: None,
        digests: None,
        per_child: 256,
        extra: Vec::new(),
    };
    let mut it = std::env::args().skip(1);
    a.family = it.next().unwrap_or_default();
    while let Some(x) = it.next() {
        match x.as_str() {
            "--depth" => a.depth = it.next().unwrap().parse().unwrap(),
            "--shard" => {
                let s = it.next().unwrap();
                let (i, n) = s.split_once('/').unwrap();
                a.shard = (i.parse().unwrap(), n.parse().unwrap());
            }
            "--small" => a.small = true,
            "--fs" => a.fs = true,
            "--text" => a.text = true,
            "--flush" => a.flush = true,
            "--replay" => a.replay = it.next(),
            "--digests" => a.digests = it.next(),
            "--per-child" => a.per_child = it.next().unwrap().parse().unwrap(),
            other => a.extra.push(other.to_string()),
        }
    }
    a
}

fn op_to_str(o: &e3_hist::Op) -> String {
    match o {
        e3_hist::Op::Install(t, k) => format!("I:{t:?}:{k:?}"),
        e3_hist::Op::Drop => "D".into(),
        e3_hist::Op::Panic => "P".into(),
        e3_hist::Op::Refuse(k) => format!("R{k}"),
    }
}

fn op_from_str(s: &str, alphabet: &[e3_hist::Op]) -> Option<e3_hist::Op> {
    alphabet.iter().copied().find(|o| op_to_str(o) == s)
}

/// All enabled sequences of exactly `depth` operations, in lexicographic alphabet order.
fn enumerate(alpha: &[e3_hist::Op], depth: usize, mut emit: impl FnMut(&[e3_hist::Op])) {
    fn rec(alpha: &[e3_hist::Op], depth: usize, m: &e3_hist::Model, cur: &mut Vec<e3_hist::Op>, emit: &mut dyn FnMut(&[e3_hist::Op])) {
        if cur.len() == depth {
            emit(cur);
            return;
        }
        for o in alpha {
            if m.enabled(o) {
                let mut m2 = m.clone();
                m2.step(o);
                cur.push(*o);
                rec(alpha, depth, &m2, cur, emit);
                cur.pop();
            }
        }
    }
    rec(alpha, depth, &e3_hist::Model::default(), &mut Vec::new(), &mut emit);
}

/// Number of distinct non-empty prefixes (= concrete states reached) and of distinct model states.
fn count_states(alpha: &[e3_hist::Op], depth: usize) -> (u64, u64) {
    use std::collections::HashSet;
    let mut prefixes = 0u64;
    let mut models: HashSet<e3_hist::Model> = HashSet::new();
    fn rec(alpha: &[e3_hist::Op], depth: usize, len: usize, m: &e3_hist::Model, prefixes: &mut u64, models: &mut std::collections::HashSet<e3_hist::Model>) {
        if len == depth {
            return;
        }
        for o in alpha {
            if m.enabled(o) {
                let mut m2 = m.clone();
                m2.step(o);
                m2.lifetimes = 0;
                *prefixes += 1;
                models.insert(m2.clone());
                rec(alpha, depth, len + 1, &m2, prefixes, models);
            }
        }
    }
    rec(alpha, depth.min(6), 0, &e3_hist::Model::default(), &mut prefixes, &mut models);
    (prefixes, models.len() as u64)
}

fn phase(p: u64) -> String {
    let step = p & 0xFFF;
    match p >> 12 {
        0 => format!("inside operation {step}"),
        1 => format!("while calling the functions after operation {step}"),
        _ => format!("after the injector of operation {step} went away"),
    }
}

fn phase_key(p: u64) -> &'static str {
    match p >> 12 {
        0 => "inside-operation",
        1 => "calling-functions-while-installed",
        _ => "after-injector-went-away",
    }
}

fn encode_result(r: &e3_hist::HistResult) -> Vec<u8> {
    let v = json!({
        "da": r.digest_api, "de": r.digest_env, "steps": r.steps,
        "v": r.violations.iter().map(|x| json!({"prop": x.prop, "key": x.key, "step": x.step, "what": x.what})).collect::<Vec<_>>()
    });
    vkit::serde_json::to_vec(&v).unwrap()
}

pub fn main_hist(a: &Args) -> i32 {
    let refusals = a.extra.iter().any(|x| x == "--refusals") && crate::envx::MOUNTED;
    let alpha = e3_hist::alphabet_r(a.fs, a.small, refusals);
    let w = World::init(a.fs);
    let opts = e3_hist::Opts { with_fs: a.fs, full_text_snapshot: a.text, flush_oracle: a.flush };
    // the histories of this shard
    let mut hists: Vec<Vec<e3_hist::Op>> = Vec::new();
    if let Some(f) = &a.replay {
        let txt = std::fs::read_to_string(f).expect("replay file");
        let v: Value = vkit::serde_json::from_str(&txt).expect("replay json");
        let full = e3_hist::alphabet_r(true, false, true);
        let h: Vec<e3_hist::Op> = v["case"]["history"]
            .as_array()
            .expect("history")
            .iter()
            .map(|s| op_from_str(s.as_str().unwrap(), &full).expect("unknown op in replay"))
            .collect();
        // run twice: determinism
        hists.push(h.clone());
        hists.push(h);
    } else {
        let mut idx = 0usize;
        enumerate(&alpha, a.depth, |h| {
            if idx % a.shard.1 == a.shard.0 {
                hists.push(h.to_vec());
            }
            idx += 1;
        });
    }
    let per_child = if a.replay.is_some() { 1 } else { a.per_child };
    let outcomes = isolate::run(hists.len(), per_child, 30_000, |i| {
        let mut r = e3_hist::run_history(&w, &opts, &hists[i]);
        // determinism: every 8th history is executed twice and must be observed identically
        if i % 8 == 0 && r.violations.is_empty() {
            let r2 = e3_hist::run_history(&w, &opts, &hists[i]);
            if r2.digest_api != r.digest_api || r2.digest_env != r.digest_env {
                r.violations.push(e3_hist::Violation { prop: "MACHINERY", key: "nondeterministic-execution".into(), step: 0, what: "two executions of the same history gave different observations".into() });
            }
        }
        let stop = !r.violations.is_empty();
        (encode_result(&r), stop)
    });
    // aggregate
    let mut steps = 0u64;
    let mut viols: Vec<Value> = Vec::new();
    let mut seen_keys: std::collections::BTreeMap<(String, String), usize> = Default::default();
    let mut digests: Vec<(u64, u64)> = Vec::with_capacity(hists.len());
    let mut flagged: Vec<bool> = Vec::with_capacity(hists.len());
    let mut distinct_api: std::collections::HashSet<u64> = Default::default();
    let mut crashed = 0u64;
    for (i, o) in outcomes.iter().enumerate() {
        let hist_json: Vec<String> = hists[i].iter().map(op_to_str).collect();
        let mut add = |prop: &str, key: &str, step: u64, what: String, viols: &mut Vec<Value>| {
            let k = (prop.to_string(), key.to_string());
            let n = seen_keys.entry(k).or_insert(0);
            *n += 1;
            if *n <= 3 {
                viols.push(json!({"prop": prop, "key": key, "step": step, "what": what, "history": hist_json}));
            }
        };
        match o {
            Outcome::Done(bytes) => {
                let v: Value = vkit::serde_json::from_slice(bytes).unwrap();
                steps += v["steps"].as_u64().unwrap();
                let da = v["da"].as_u64().unwrap();
                digests.push((da, v["de"].as_u64().unwrap()));
                flagged.push(!v["v"].as_array().unwrap().is_empty());
                distinct_api.insert(da);
                for x in v["v"].as_array().unwrap() {
                    add(x["prop"].as_str().unwrap(), x["key"].as_str().unwrap(), x["step"].as_u64().unwrap(), x["what"].as_str().unwrap().to_string(), &mut viols);
                }
            }
            Outcome::Signal(sig, prog) => {
                crashed += 1;
                flagged.push(true);
                digests.push((0, 0));
                add("*", &format!("process-killed-signal-{sig}:{}", phase_key(*prog)), *prog, format!("the process died with signal {sig} while executing this history ({})", phase(*prog)), &mut viols);
            }
            Outcome::Exit(code, prog) => {
                crashed += 1;
                flagged.push(true);
                digests.push((0, 0));
                add("*", &format!("process-exit-{code}:{}", phase_key(*prog)), *prog, format!("the process exited with status {code} while executing this history ({})", phase(*prog)), &mut viols);
            }
            Outcome::Timeout(prog) => {
                crashed += 1;
                flagged.push(true);
                digests.push((0, 0));
                add("*", &format!("hang:{}", phase_key(*prog)), *prog, format!("no progress for 30 s while executing this history ({})", phase(*prog)), &mut viols);
            }
        }
    }
    if a.replay.is_some() && digests.len() == 2 && digests[0] != digests[1] {
        viols.push(json!({"prop": "MACHINERY", "key": "nondeterministic-replay", "step": 0, "what": "two runs of the same history gave different observations", "history": []}));
    }
    if let Some(f) = &a.digests {
        let mut s = String::new();
        for (i, d) in digests.iter().enumerate() {
            s.push_str(&format!("{} {:016x} {}\n", hists[i].iter().map(op_to_str).collect::<Vec<_>>().join(","), d.0, flagged[i] as u8));
        }
        std::fs::write(f, s).unwrap();
    }
    let (prefixes, model_states) = if a.shard.0 == 0 && a.replay.is_none() { count_states(&alpha, a.depth) } else { (0, 0) };
    let samples: Vec<Vec<String>> = hists.iter().step_by((hists.len() / 4).max(1)).take(4).map(|h| h.iter().map(op_to_str).collect()).collect();
    let out = json!({
        "engine": "e3", "family": a.family, "mounted": crate::envx::MOUNTED,
        "depth": a.depth, "shard": [a.shard.0, a.shard.1], "alphabet": alpha.iter().map(op_to_str).collect::<Vec<_>>(),
        "histories": hists.len(), "steps": steps, "prefixes": prefixes, "model_states": model_states,
        "distinct_outcomes": distinct_api.len(), "crashed": crashed,
        "violation_counts": seen_keys.iter().map(|((p, k), n)| json!({"prop": p, "key": k, "count": n})).collect::<Vec<_>>(),
        "violations": viols, "samples": samples,
    });
    println!("{}", vkit::serde_json::to_string(&out).unwrap());
    0
}

fn enumerate_times(depth: usize, mut emit: impl FnMut(&[e3_times::Op])) {
    fn rec(depth: usize, alive: bool, cur: &mut Vec<e3_times::Op>, emit: &mut dyn FnMut(&[e3_times::Op])) {
        if cur.len() == depth {
            emit(cur);
            return;
        }
        for o in e3_times::ALPHABET.iter() {
            let m = e3_times::Model { alive, count: 0, lifetimes: 0 };
            if m.enabled(o) {
                let alive2 = match o {
                    e3_times::Op::Begin => true,
                    e3_times::Op::End | e3_times::Op::Panic => false,
                    e3_times::Op::Build => alive,
                    // a propagating call may or may not end the lifetime; the harness decides at run
                    // time, so for enumeration treat Mu/Xu as "stays alive" and let run_history cut
                    // the rest of the lifetime when the panic propagates
                    _ => alive,
                };
                cur.push(*o);
                rec(depth, alive2, cur, emit);
                cur.pop();
            }
        }
    }
    rec(depth, false, &mut Vec::new(), &mut emit);
}

pub const BIG_SCRIPTS: [&str; 6] = ["B,N,E", "B,N,M,E", "B,N-1,E", "B,N,E,B,N,E", "B,N-1,P,B,N,E", "B,N,Mu"];

/// `B,N,M,E` -> Begin, N matching calls, one more, End
pub fn big_script(sc: &str, n: usize) -> Vec<e3_times::Op> {
    let mut h = Vec::new();
    for tok in sc.split(',') {
        match tok {
            "N" => h.extend(std::iter::repeat(e3_times::Op::M).take(n)),
            "N-1" => h.extend(std::iter::repeat(e3_times::Op::M).take(n - 1)),
            t => h.push(e3_times::op_from_str(t).expect("op")),
        }
    }
    h
}

fn big_name(h: &[e3_times::Op], n: usize) -> Option<&'static str> {
    if n <= 3 {
        return None;
    }
    BIG_SCRIPTS.iter().copied().find(|sc| big_script(sc, n) == h)
}

pub fn main_times(a: &Args) -> i32 {
    let n: usize = a.extra.iter().position(|x| x == "--n").map(|i| a.extra[i + 1].parse().unwrap()).unwrap_or(1);
    let threads = a.extra.iter().any(|x| x == "--threads");
    if a.extra.iter().any(|x| x == "--postmortem") {
        e3_times::POSTMORTEM.store(true, std::sync::atomic::Ordering::Relaxed);
    }
    let mut hists: Vec<Vec<e3_times::Op>> = Vec::new();
    let big = a.extra.iter().any(|x| x == "--big");
    if n > 3 {
        e3_times::BIG_N.store(n, std::sync::atomic::Ordering::SeqCst);
    }
    if let Some(f) = &a.replay {
        let txt = std::fs::read_to_string(f).expect("replay file");
        let v: Value = vkit::serde_json::from_str(&txt).expect("replay json");
        let h: Vec<e3_times::Op> = if let Some(sc) = v["case"]["big_script"].as_str() { big_script(sc, n) } else { v["case"]["history"].as_array().expect("history").iter().map(|s| e3_times::op_from_str(s.as_str().unwrap()).expect("op")).collect() };
        hists.push(h.clone());
        hists.push(h);
    } else if big {
        // long lifetimes around one large budget N: exactly N, one more, one fewer, two lifetimes of N,
        // N after a lifetime that ended by unwinding
        for (i, sc) in BIG_SCRIPTS.iter().enumerate() {
            if i % a.shard.1 == a.shard.0 {
                hists.push(big_script(sc, n));
            }
        }
    } else {
        let mut idx = 0usize;
        enumerate_times(a.depth, |h| {
            if idx % a.shard.1 == a.shard.0 {
                hists.push(h.to_vec());
            }
            idx += 1;
        });
    }
    // every history starts from the pristine process image (static counters live in the image)
    let outcomes = isolate::run(hists.len(), 1, 30_000, |i| {
        let r = e3_times::run_history(n, &hists[i], threads);
        let v = json!({"d": r.digest, "steps": r.steps,
            "v": r.violations.iter().map(|x| json!({"prop": x.prop, "key": x.key, "step": x.step, "what": x.what})).collect::<Vec<_>>()});
        (vkit::serde_json::to_vec(&v).unwrap(), false)
    });
    let mut steps = 0u64;
    let mut viols: Vec<Value> = Vec::new();
    let mut seen_keys: std::collections::BTreeMap<(String, String), usize> = Default::default();
    let mut distinct: std::collections::HashSet<u64> = Default::default();
    let mut crashed = 0u64;
    let mut digests: Vec<(u64, bool)> = Vec::new();
    for (i, o) in outcomes.iter().enumerate() {
        let bigname = if n > 3 { big_name(&hists[i], n) } else { None };
        let hist_json: Vec<String> = match bigname {
            Some(sc) => vec![format!("{sc} with N={n}")],
            None => hists[i].iter().map(|o| e3_times::op_to_str(o).to_string()).collect(),
        };
        let mut add = |prop: &str, key: &str, step: u64, what: String, viols: &mut Vec<Value>| {
            let c = seen_keys.entry((prop.to_string(), key.to_string())).or_insert(0);
            *c += 1;
            if *c <= 3 {
                viols.push(json!({"prop": prop, "key": key, "step": step, "what": what, "history": hist_json, "n": n, "big_script": bigname}));
            }
        };
        match o {
            Outcome::Done(bytes) => {
                let v: Value = vkit::serde_json::from_slice(bytes).unwrap();
                steps += v["steps"].as_u64().unwrap();
                let d = v["d"].as_u64().unwrap();
                distinct.insert(d);
                digests.push((d, !v["v"].as_array().unwrap().is_empty()));
                for x in v["v"].as_array().unwrap() {
                    add(x["prop"].as_str().unwrap(), x["key"].as_str().unwrap(), x["step"].as_u64().unwrap(), x["what"].as_str().unwrap().to_string(), &mut viols);
                }
            }
            Outcome::Signal(sig, prog) => {
                crashed += 1;
                digests.push((0, true));
                let k = if *sig == 6 { "process-aborted".to_string() } else { format!("process-killed-signal-{sig}") };
                add("C05", &k, *prog, format!("the process died with signal {sig} at operation {prog} of this history (an abort is what a second panic during unwinding produces)"), &mut viols);
            }
            Outcome::Exit(code, prog) => {
                crashed += 1;
                digests.push((0, true));
                add("C05", &format!("process-exit-{code}"), *prog, format!("the process exited with status {code} at operation {prog}"), &mut viols);
            }
            Outcome::Timeout(prog) => {
                crashed += 1;
                digests.push((0, true));
                add("C05", "hang", *prog, format!("no progress for 30 s at operation {prog} (the process-wide guard was not released?)"), &mut viols);
            }
        }
    }
    if a.replay.is_some() && digests.len() == 2 && digests[0] != digests[1] {
        viols.push(json!({"prop": "MACHINERY", "key": "nondeterministic-replay", "step": 0, "what": "two runs of the same history gave different observations", "history": []}));
    }
    if let Some(f) = &a.digests {
        let mut s = String::new();
        for (i, d) in digests.iter().enumerate() {
            let name = match big_name(&hists[i], n) {
                Some(sc) if n > 3 => format!("{sc}@{n}"),
                _ => hists[i].iter().map(e3_times::op_to_str).collect::<Vec<_>>().join(","),
            };
            s.push_str(&format!("{} {:016x} {}\n", name, d.0, d.1 as u8));
        }
        std::fs::write(f, s).unwrap();
    }
    let samples: Vec<Vec<String>> = hists.iter().step_by((hists.len() / 4).max(1)).take(4).map(|h| match big_name(h, n) {
        Some(sc) if n > 3 => vec![format!("{sc} with N={n}")],
        _ => h.iter().map(|o| e3_times::op_to_str(o).to_string()).collect(),
    }).collect();
    // distinct prefixes: every node of the enumeration tree
    let mut prefixes = 0u64;
    if a.shard.0 == 0 && a.replay.is_none() {
        for d in 1..=a.depth {
            enumerate_times(d, |_| prefixes += 1);
        }
    }
    let out = json!({
        "engine": "e3", "family": "times", "mounted": crate::envx::MOUNTED, "n": n, "threads": threads,
        "depth": a.depth, "shard": [a.shard.0, a.shard.1], "alphabet": e3_times::ALPHABET.iter().map(e3_times::op_to_str).collect::<Vec<_>>(),
        "histories": hists.len(), "steps": steps, "prefixes": prefixes, "model_states": 0,
        "distinct_outcomes": distinct.len(), "crashed": crashed,
        "violation_counts": seen_keys.iter().map(|((p, k), c)| json!({"prop": p, "key": k, "count": c})).collect::<Vec<_>>(),
        "violations": viols, "samples": samples,
    });
    println!("{}", vkit::serde_json::to_string(&out).unwrap());
    0
}

fn enumerate_async(alpha: &[e3_async::Op], depth: usize, mut emit: impl FnMut(&[e3_async::Op])) {
    fn rec(alpha: &[e3_async::Op], depth: usize, m: &e3_async::Model, cur: &mut Vec<e3_async::Op>, emit: &mut dyn FnMut(&[e3_async::Op])) {
        if cur.len() == depth {
            emit(cur);
            return;
        }
        for o in alpha {
            if m.enabled(o) {
                let mut m2 = m.clone();
                m2.step(o);
                cur.push(*o);
                rec(alpha, depth, &m2, cur, emit);
                cur.pop();
            }
        }
    }
    rec(alpha, depth, &e3_async::Model::default(), &mut Vec::new(), &mut emit);
}

pub fn main_async(a: &Args) -> i32 {
    let alpha = e3_async::alphabet(a.small);
    let second_thread = a.extra.iter().any(|x| x == "--threads");
    let mut hists: Vec<Vec<e3_async::Op>> = Vec::new();
    if let Some(f) = &a.replay {
        let txt = std::fs::read_to_string(f).expect("replay file");
        let v: Value = vkit::serde_json::from_str(&txt).expect("replay json");
        let h: Vec<e3_async::Op> = v["case"]["history"].as_array().expect("history").iter().map(|s| e3_async::op_from_str(s.as_str().unwrap()).expect("op")).collect();
        hists.push(h.clone());
        hists.push(h);
    } else {
        let mut idx = 0usize;
        enumerate_async(&alpha, a.depth, |h| {
            if idx % a.shard.1 == a.shard.0 {
                hists.push(h.to_vec());
            }
            idx += 1;
        });
    }
    let per_child = if a.replay.is_some() { 1 } else { a.per_child };
    let outcomes = isolate::run(hists.len(), per_child, 60_000, |i| {
        let mut r = e3_async::run_history(&hists[i], second_thread);
        if i % 8 == 0 && r.violations.is_empty() {
            let r2 = e3_async::run_history(&hists[i], second_thread);
            if r2.digest != r.digest {
                r.violations.push(e3_async::Violation { prop: "MACHINERY", key: "nondeterministic-execution".into(), step: 0, what: "two executions of the same history gave different observations".into() });
            }
        }
        let stop = !r.violations.is_empty();
        let v = json!({"d": r.digest, "steps": r.steps,
            "v": r.violations.iter().map(|x| json!({"prop": x.prop, "key": x.key, "step": x.step, "what": x.what})).collect::<Vec<_>>()});
        (vkit::serde_json::to_vec(&v).unwrap(), stop)
    });
    let mut steps = 0u64;
    let mut viols: Vec<Value> = Vec::new();
    let mut seen_keys: std::collections::BTreeMap<(String, String), usize> = Default::default();
    let mut distinct: std::collections::HashSet<u64> = Default::default();
    let mut crashed = 0u64;
    let mut digests: Vec<(u64, bool)> = Vec::new();
    for (i, o) in outcomes.iter().enumerate() {
        let hist_json: Vec<String> = hists[i].iter().map(e3_async::op_to_str).collect();
        let mut add = |prop: &str, key: &str, step: u64, what: String, viols: &mut Vec<Value>| {
            let c = seen_keys.entry((prop.to_string(), key.to_string())).or_insert(0);
            *c += 1;
            if *c <= 3 {
                viols.push(json!({"prop": prop, "key": key, "step": step, "what": what, "history": hist_json}));
            }
        };
        match o {
            Outcome::Done(bytes) => {
                let v: Value = vkit::serde_json::from_slice(bytes).unwrap();
                steps += v["steps"].as_u64().unwrap();
                let d = v["d"].as_u64().unwrap();
                distinct.insert(d);
                digests.push((d, !v["v"].as_array().unwrap().is_empty()));
                for x in v["v"].as_array().unwrap() {
                    add(x["prop"].as_str().unwrap(), x["key"].as_str().unwrap(), x["step"].as_u64().unwrap(), x["what"].as_str().unwrap().to_string(), &mut viols);
                }
            }
            Outcome::Signal(sig, prog) => {
                crashed += 1;
                digests.push((0, true));
                add("C14", &format!("process-killed-signal-{sig}"), *prog & 0xFFF, format!("the process died with signal {sig} at operation {} of this history (awaiting the functions / dropping their values)", prog & 0xFFF), &mut viols);
            }
            Outcome::Exit(code, prog) => {
                crashed += 1;
                digests.push((0, true));
                add("C14", &format!("process-exit-{code}"), *prog & 0xFFF, format!("the process exited with status {code}"), &mut viols);
            }
            Outcome::Timeout(prog) => {
                crashed += 1;
                digests.push((0, true));
                add("C14", "hang", *prog & 0xFFF, "no progress for 60 s (an await never completes?)".into(), &mut viols);
            }
        }
    }
    if a.replay.is_some() && digests.len() == 2 && digests[0] != digests[1] {
        viols.push(json!({"prop": "MACHINERY", "key": "nondeterministic-replay", "step": 0, "what": "two runs of the same history gave different observations", "history": []}));
    }
    if let Some(f) = &a.digests {
        let mut s = String::new();
        for (i, d) in digests.iter().enumerate() {
            s.push_str(&format!("{} {:016x} {}\n", hists[i].iter().map(e3_async::op_to_str).collect::<Vec<_>>().join(","), d.0, d.1 as u8));
        }
        std::fs::write(f, s).unwrap();
    }
    let mut prefixes = 0u64;
    if a.shard.0 == 0 && a.replay.is_none() {
        for d in 1..=a.depth {
            enumerate_async(&alpha, d, |_| prefixes += 1);
        }
    }
    let samples: Vec<Vec<String>> = hists.iter().step_by((hists.len() / 4).max(1)).take(4).map(|h| h.iter().map(e3_async::op_to_str).collect()).collect();
    let out = json!({
        "engine": "e3", "family": "async", "mounted": crate::envx::MOUNTED,
        "depth": a.depth, "shard": [a.shard.0, a.shard.1], "alphabet": alpha.iter().map(e3_async::op_to_str).collect::<Vec<_>>(),
        "histories": hists.len(), "steps": steps, "prefixes": prefixes, "model_states": 0,
        "distinct_outcomes": distinct.len(), "crashed": crashed,
        "violation_counts": seen_keys.iter().map(|((p, k), c)| json!({"prop": p, "key": k, "count": c})).collect::<Vec<_>>(),
        "violations": viols, "samples": samples,
    });
    println!("{}", vkit::serde_json::to_string(&out).unwrap());
    0
}

pub fn main_cycles(a: &Args) -> i32 {
    let n: usize = a.extra.iter().position(|x| x == "--n").map(|i| a.extra[i + 1].parse().unwrap()).unwrap_or(3000);
    let w = World::init(true);
    let outcomes = isolate::run(1, 1, 3_600_000, |_| {
        let (v, steps) = e3_hist::run_cycles(&w, n);
        let j = json!({"steps": steps, "v": v.iter().map(|x| json!({"prop": x.prop, "key": x.key, "step": x.step, "what": x.what})).collect::<Vec<_>>()});
        (vkit::serde_json::to_vec(&j).unwrap(), false)
    });
    let mut viols: Vec<Value> = Vec::new();
    let mut steps = 0u64;
    match &outcomes[0] {
        Outcome::Done(b) => {
            let v: Value = vkit::serde_json::from_slice(b).unwrap();
            steps = v["steps"].as_u64().unwrap();
            for x in v["v"].as_array().unwrap() {
                viols.push(json!({"prop": x["prop"], "key": x["key"], "step": x["step"], "what": x["what"], "history": [format!("cycles:{n}")]}));
            }
        }
        Outcome::Signal(sig, _) | Outcome::Exit(sig, _) => viols.push(json!({"prop": "C12", "key": format!("cycles-process-died-{sig}"), "step": 0, "what": format!("the process died (signal/status {sig}) during the cycle run"), "history": [format!("cycles:{n}")]})),
        Outcome::Timeout(_) => viols.push(json!({"prop": "C12", "key": "cycles-hang", "step": 0, "what": "the cycle run did not finish within an hour", "history": [format!("cycles:{n}")]})),
    }
    let out = json!({"engine": "e3", "family": "cycles", "mounted": crate::envx::MOUNTED, "cycles": n, "steps": steps, "violations": viols});
    println!("{}", vkit::serde_json::to_string(&out).unwrap());
    0
}

/// wide lifetimes: every k <= --kmax x 3 orders x {no repeats, repeats} x {scope exit, unwinding} x spans
pub fn main_wide(a: &Args) -> i32 {
    let kmax: usize = a.extra.iter().position(|x| x == "--kmax").map(|i| a.extra[i + 1].parse().unwrap()).unwrap_or(48);
    let pre = crate::e3_wide::init();
    let mut items: Vec<(usize, usize, bool, bool, usize)> = Vec::new();
    if let Some(path) = &a.replay {
        let v: Value = vkit::serde_json::from_str(&std::fs::read_to_string(path).expect("replay file")).expect("json");
        let c = &v["case"]["wide"];
        items.push((c[0].as_u64().unwrap() as usize, c[1].as_u64().unwrap() as usize, c[2].as_bool().unwrap(), c[3].as_bool().unwrap(), c[4].as_u64().unwrap() as usize));
    } else {
        for k in 1..=kmax {
            for ord in 0..3 {
                for dup in [false, true] {
                    for pe in [false, true] {
                        for span in [1usize, 8] {
                            if k * span + 8 <= crate::e3_wide::WIDE_SLOTS {
                                items.push((k, ord, dup, pe, span));
                            }
                        }
                    }
                }
            }
        }
        items = items.into_iter().enumerate().filter(|(i, _)| i % a.shard.1 == a.shard.0).map(|(_, x)| x).collect();
    }
    let outcomes = isolate::run(items.len(), 8, 120_000, |i| {
        let (k, ord, dup, pe, span) = items[i];
        let mut v = Vec::new();
        let (n, refused) = crate::e3_wide::run_one(&pre, k, ord, dup, pe, span, &mut v);
        let stop = !v.is_empty();
        let j = json!({"steps": n, "refused": refused, "v": v.iter().map(|x| json!({"prop": x.prop, "key": x.key, "what": x.what})).collect::<Vec<_>>()});
        (vkit::serde_json::to_vec(&j).unwrap(), stop)
    });
    let mut viols: Vec<Value> = Vec::new();
    let mut counts: std::collections::BTreeMap<(String, String), usize> = Default::default();
    let mut steps = 0u64;
    let mut refused_lifetimes = 0u64;
    for (i, o) in outcomes.iter().enumerate() {
        let (k, ord, dup, pe, span) = items[i];
        let case = json!([k, ord, dup, pe, span]);
        let mut add = |prop: &str, key: &str, what: String, viols: &mut Vec<Value>| {
            let c = counts.entry((prop.to_string(), key.to_string())).or_insert(0);
            *c += 1;
            if *c <= 3 {
                viols.push(json!({"prop": prop, "key": key, "step": 0, "what": what, "history": [format!("wide:{case}")], "wide": case}));
            }
        };
        match o {
            Outcome::Done(b) => {
                let v: Value = vkit::serde_json::from_slice(b).unwrap();
                steps += v["steps"].as_u64().unwrap();
                if v["refused"].as_bool() == Some(true) {
                    refused_lifetimes += 1;
                }
                for x in v["v"].as_array().unwrap() {
                    add(x["prop"].as_str().unwrap(), x["key"].as_str().unwrap(), x["what"].as_str().unwrap().to_string(), &mut viols);
                }
            }
            Outcome::Signal(sig, _) | Outcome::Exit(sig, _) => add("*", &format!("wide:process-died-{sig}"), format!("the process died (signal/status {sig}) in the wide lifetime k={k} order={ord} dup={dup} panic_end={pe} span={span}"), &mut viols),
            Outcome::Timeout(_) => add("*", "wide:hang", format!("no progress for 120 s in the wide lifetime k={k} order={ord} dup={dup} panic_end={pe} span={span}"), &mut viols),
        }
    }
    let vc: Vec<Value> = counts.iter().map(|((p, k), n)| json!({"prop": p, "key": k, "count": n})).collect();
    let out = json!({"engine": "e3", "family": "wide", "mounted": crate::envx::MOUNTED, "kmax": kmax, "lifetimes": items.len(), "refused_lifetimes": refused_lifetimes, "steps": steps, "violations": viols, "violation_counts": vc});
    println!("{}", vkit::serde_json::to_string(&out).unwrap());
    0
}

pub fn main() {
    vkit::proc::ensure_no_aslr();
    isolate::quiet_panics();
    let a = parse_args();
    let code = match a.family.as_str() {
        "hist" => main_hist(&a),
        "times" => main_times(&a),
        "async" => main_async(&a),
        "cycles" => main_cycles(&a),
        "wide" => main_wide(&a),
        other => {
            eprintln!("e3: unknown family {other:?}");
            2
        }
    };
    std::process::exit(code);
}
