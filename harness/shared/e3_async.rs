//! E3, async family (C14): every sequence over {FakeAsync(function, value/flavour), DropInjector,
//! PanicHere} up to a depth over a family of sibling async functions; after every operation every
//! function of the family is awaited (directly, through an outer async fn, and on a second OS
//! thread) under a hand-written executor that counts polls.
use crate::e3_core::{block_on, fnv, payload_text};
use crate::envx;
use crate::inj;
use crate::inj::interface::injector::*;
use std::future::Future;
use std::panic::{catch_unwind, AssertUnwindSafe};
use std::pin::Pin;
use std::sync::atomic::{AtomicU32, Ordering::SeqCst};
use std::task::{Context, Poll};

pub static BODY: [AtomicU32; 8] = [const { AtomicU32::new(0) }; 8];
pub static EVAL: [AtomicU32; 16] = [const { AtomicU32::new(0) }; 16];
pub static DROPS: AtomicU32 = AtomicU32::new(0);
/// when set, the next evaluation of that site's value expression panics (once)
pub static PANIC_NEXT: [std::sync::atomic::AtomicBool; 16] = [const { std::sync::atomic::AtomicBool::new(false) }; 16];

/// called first thing by every value expression handed to `async_return!`
pub fn ev(slot: usize) {
    EVAL[slot].fetch_add(1, SeqCst);
    if PANIC_NEXT[slot].swap(false, SeqCst) {
        panic!("value expression fails (user code)");
    }
}

#[derive(Clone, Debug, PartialEq, Eq)]
pub struct Big(pub [u64; 16]);

pub struct Tracked(pub u32);
impl Drop for Tracked {
    fn drop(&mut self) {
        DROPS.fetch_add(1, SeqCst);
    }
}

/// completes on its second poll
pub struct YieldOnce(bool);
impl Future for YieldOnce {
    type Output = ();
    fn poll(mut self: Pin<&mut Self>, cx: &mut Context<'_>) -> Poll<()> {
        if self.0 {
            Poll::Ready(())
        } else {
            self.0 = true;
            cx.waker().wake_by_ref();
            Poll::Pending
        }
    }
}

pub async fn f0(x: u32) -> u32 {
    BODY[0].fetch_add(1, SeqCst);
    x + 1
}
pub async fn f1(x: u32) -> u32 {
    BODY[1].fetch_add(1, SeqCst);
    x + 2
}
pub async fn f2(s: &str) -> String {
    BODY[2].fetch_add(1, SeqCst);
    format!("orig:{s}")
}
pub async fn f3() -> Big {
    BODY[3].fetch_add(1, SeqCst);
    Big([3; 16])
}
pub async fn f4() {
    BODY[4].fetch_add(1, SeqCst);
}
pub struct S(pub u32);
pub static S0: S = S(0);
impl S {
    pub async fn m(&self, x: u32) -> u32 {
        BODY[5].fetch_add(1, SeqCst);
        self.0 + x
    }
}
/// pends once before completing
pub async fn f6(x: u32) -> u32 {
    BODY[6].fetch_add(1, SeqCst);
    YieldOnce(false).await;
    x + 6
}
pub async fn f7(t: Tracked) -> u32 {
    BODY[7].fetch_add(1, SeqCst);
    t.0 + 7
}
async fn outer0(x: u32) -> u32 {
    f0(x).await + 1000
}

pub const NF: usize = 8;

#[derive(Clone, Copy, PartialEq, Eq, Hash, Debug)]
pub enum Op {
    /// fake function `f` (0..8) with flavour/value `v` (0: checked macros, 1: unchecked macros)
    Fake(u8, u8),
    Drop,
    Panic,
    /// one await of faked function `f` whose value expression panics (the awaiting code catches it)
    ValuePanic(u8),
    /// a synchronous helper is faked on the same injector with a `times:` expectation that is never met:
    /// the lifetime then ends with the library's own verification panic at scope exit
    Unmet,
}

#[inline(never)]
pub fn sync_helper() -> u32 {
    std::hint::black_box(0x5E)
}

pub fn op_to_str(o: &Op) -> String {
    match o {
        Op::Fake(f, v) => format!("F{f}v{v}"),
        Op::Drop => "D".into(),
        Op::Panic => "P".into(),
        Op::ValuePanic(f) => format!("V{f}"),
        Op::Unmet => "U".into(),
    }
}

pub fn alphabet(small: bool) -> Vec<Op> {
    let mut v = vec![Op::Fake(0, 0), Op::Drop, Op::Fake(1, 0), Op::Fake(0, 1), Op::Fake(2, 0), Op::Panic, Op::Fake(6, 0), Op::ValuePanic(0), Op::Unmet];
    if !small {
        v.extend([Op::ValuePanic(2), Op::Fake(1, 1), Op::Fake(2, 1), Op::Fake(3, 0), Op::Fake(3, 1), Op::Fake(4, 0), Op::Fake(5, 0), Op::Fake(5, 1), Op::Fake(6, 1), Op::Fake(7, 0), Op::Fake(7, 1)]);
    }
    v
}

pub fn op_from_str(s: &str) -> Option<Op> {
    alphabet(false).into_iter().find(|o| op_to_str(o) == s)
}

fn install(injector: &mut InjectorPP, f: u8, v: u8) {
    // every arm is its own macro site; the value expression counts its evaluations
    match (f, v) {
        (0, 0) => injector
            .when_called_async(inj::async_func!(f0(u32::default()), u32))
            .will_return_async(inj::async_return!({ ev(0); 70 }, u32)),
        (0, 1) => unsafe {
            injector
                .when_called_async_unchecked(inj::async_func_unchecked!(f0(u32::default())))
                .will_return_async_unchecked(inj::async_return_unchecked!({ ev(1); 80 }, u32))
        },
        (1, 0) => injector
            .when_called_async(inj::async_func!(f1(u32::default()), u32))
            .will_return_async(inj::async_return!({ ev(2); 71 }, u32)),
        (1, 1) => unsafe {
            injector
                .when_called_async_unchecked(inj::async_func_unchecked!(f1(u32::default())))
                .will_return_async_unchecked(inj::async_return_unchecked!({ ev(3); 81 }, u32))
        },
        (2, 0) => injector
            .when_called_async(inj::async_func!(f2(""), String))
            .will_return_async(inj::async_return!({ ev(4); String::from("fake-two-heap-allocated-string") }, String)),
        (2, 1) => unsafe {
            injector
                .when_called_async_unchecked(inj::async_func_unchecked!(f2("")))
                .will_return_async_unchecked(inj::async_return_unchecked!({ ev(5); String::from("FAKE-TWO-UNCHECKED-heap-string") }, String))
        },
        (3, 0) => injector
            .when_called_async(inj::async_func!(f3(), Big))
            .will_return_async(inj::async_return!({ ev(6); Big([73; 16]) }, Big)),
        (3, 1) => unsafe {
            injector
                .when_called_async_unchecked(inj::async_func_unchecked!(f3()))
                .will_return_async_unchecked(inj::async_return_unchecked!({ ev(7); Big([83; 16]) }, Big))
        },
        (4, _) => injector
            .when_called_async(inj::async_func!(f4(), ()))
            .will_return_async(inj::async_return!({ ev(8); }, ())),
        (5, 0) => injector
            .when_called_async(inj::async_func!(S0.m(0), u32))
            .will_return_async(inj::async_return!({ ev(10); 75 }, u32)),
        (5, 1) => unsafe {
            injector
                .when_called_async_unchecked(inj::async_func_unchecked!(S0.m(0)))
                .will_return_async_unchecked(inj::async_return_unchecked!({ ev(11); 85 }, u32))
        },
        (6, 0) => injector
            .when_called_async(inj::async_func!(f6(u32::default()), u32))
            .will_return_async(inj::async_return!({ ev(12); 76 }, u32)),
        (6, 1) => unsafe {
            injector
                .when_called_async_unchecked(inj::async_func_unchecked!(f6(u32::default())))
                .will_return_async_unchecked(inj::async_return_unchecked!({ ev(13); 86 }, u32))
        },
        (7, 0) => injector
            .when_called_async(inj::async_func!(f7(Tracked(0)), u32))
            .will_return_async(inj::async_return!({ ev(14); 77 }, u32)),
        (7, 1) => unsafe {
            injector
                .when_called_async_unchecked(inj::async_func_unchecked!(f7(Tracked(0))))
                .will_return_async_unchecked(inj::async_return_unchecked!({ ev(15); 87 }, u32))
        },
        _ => panic!("harness: no such async fake"),
    }
}

fn eval_slot(f: u8, v: u8) -> usize {
    match f {
        4 => 8,
        _ => (f as usize) * 2 + v as usize,
    }
}

#[derive(Clone, Default, PartialEq, Eq, Hash, Debug)]
pub struct Model {
    pub alive: bool,
    /// per function: stack of flavours installed (top = in effect)
    pub stacks: [Vec<u8>; NF],
    /// an expectation that scope exit will find unmet is pending
    pub unmet: bool,
}

impl Model {
    pub fn enabled(&self, o: &Op) -> bool {
        match o {
            Op::Fake(..) => true,
            Op::Unmet => !self.unmet,
            Op::ValuePanic(f) => self.alive && !self.stacks[*f as usize].is_empty(),
            _ => self.alive,
        }
    }
    pub fn step(&mut self, o: &Op) {
        match o {
            Op::Fake(f, v) => {
                self.alive = true;
                self.stacks[*f as usize].push(*v);
            }
            Op::ValuePanic(_) => {}
            Op::Unmet => {
                self.alive = true;
                self.unmet = true;
            }
            _ => {
                self.alive = false;
                self.unmet = false;
                for s in self.stacks.iter_mut() {
                    s.clear();
                }
            }
        }
    }
}

pub struct Violation {
    pub prop: &'static str,
    pub key: String,
    pub step: usize,
    pub what: String,
}
pub struct Res {
    pub violations: Vec<Violation>,
    pub digest: u64,
    pub steps: u32,
}

/// Await function `f` with `arg`; returns (rendered value, polls).
fn await_one(f: usize, arg: u32) -> (String, u32) {
    match f {
        0 => {
            let (v, p) = block_on(f0(arg));
            (format!("{v}"), p)
        }
        1 => {
            let (v, p) = block_on(f1(arg));
            (format!("{v}"), p)
        }
        2 => {
            let s = format!("arg{arg}");
            let (v, p) = block_on(f2(&s));
            (v, p)
        }
        3 => {
            let (v, p) = block_on(f3());
            (format!("{:?}", v.0), p)
        }
        4 => {
            let (_, p) = block_on(f4());
            ("()".into(), p)
        }
        5 => {
            let s = S(500);
            let (v, p) = block_on(s.m(arg));
            (format!("{v}"), p)
        }
        6 => {
            let (v, p) = block_on(f6(arg));
            (format!("{v}"), p)
        }
        _ => {
            let (v, p) = block_on(f7(Tracked(arg)));
            (format!("{v}"), p)
        }
    }
}

fn original(f: usize, arg: u32) -> (String, u32) {
    match f {
        0 => (format!("{}", arg + 1), 1),
        1 => (format!("{}", arg + 2), 1),
        2 => (format!("orig:arg{arg}"), 1),
        3 => (format!("{:?}", [3u64; 16]), 1),
        4 => ("()".into(), 1),
        5 => (format!("{}", 500 + arg), 1),
        6 => (format!("{}", arg + 6), 2),
        _ => (format!("{}", arg + 7), 1),
    }
}

fn faked_value(f: usize, v: u8) -> String {
    match (f, v) {
        (0, 0) => "70".into(),
        (0, 1) => "80".into(),
        (1, 0) => "71".into(),
        (1, 1) => "81".into(),
        (2, 0) => "fake-two-heap-allocated-string".into(),
        (2, 1) => "FAKE-TWO-UNCHECKED-heap-string".into(),
        (3, 0) => format!("{:?}", [73u64; 16]),
        (3, 1) => format!("{:?}", [83u64; 16]),
        (4, _) => "()".into(),
        (5, 0) => "75".into(),
        (5, 1) => "85".into(),
        (6, 0) => "76".into(),
        (6, 1) => "86".into(),
        (7, 0) => "77".into(),
        _ => "87".into(),
    }
}

fn observe(model: &Model, res: &mut Res, step: usize, second_thread: bool) {
    for f in 0..NF {
        for (k, arg) in [0u32, 7].into_iter().enumerate() {
            let body0 = BODY[f].load(SeqCst);
            let evals0: Vec<u32> = EVAL.iter().map(|e| e.load(SeqCst)).collect();
            let drops0 = DROPS.load(SeqCst);
            let (val, polls) = if second_thread && k == 1 {
                std::thread::spawn(move || await_one(f, arg)).join().unwrap_or_else(|_| ("<thread panicked>".into(), 0))
            } else {
                await_one(f, arg)
            };
            let body_d = BODY[f].load(SeqCst) - body0;
            let evals_d: Vec<u32> = EVAL.iter().zip(evals0.iter()).map(|(e, o)| e.load(SeqCst) - o).collect();
            let drops_d = DROPS.load(SeqCst) - drops0;
            fnv(&mut res.digest, format!("{f}:{val}:{polls}:{body_d}").as_bytes());
            let top = model.stacks[f].last().copied();
            match top {
                Some(v) => {
                    let want = faked_value(f, v);
                    let slot = eval_slot(f as u8, v);
                    if val != want {
                        res.violations.push(Violation { prop: "C14", key: "faked-await-wrong-value".into(), step, what: format!("await of f{f}({arg}) while faked (flavour {v}) gave {val:?}, expected {want:?}") });
                    }
                    if polls != 1 {
                        res.violations.push(Violation { prop: "C14", key: "faked-await-not-ready-on-first-poll".into(), step, what: format!("await of faked f{f} took {polls} polls") });
                    }
                    if body_d != 0 {
                        res.violations.push(Violation { prop: "C14", key: "original-body-ran-while-faked".into(), step, what: format!("await of faked f{f}({arg}) ran the original body") });
                    }
                    if evals_d[slot] != 1 || evals_d.iter().sum::<u32>() != 1 {
                        res.violations.push(Violation { prop: "C14", key: "value-not-freshly-evaluated-per-await".into(), step, what: format!("await of faked f{f}: the value expression was evaluated {} time(s) during this await (expected exactly once, freshly)", evals_d[slot]) });
                    }
                }
                None => {
                    let (want, wpolls) = original(f, arg);
                    if val != want || polls != wpolls || body_d != 1 || evals_d.iter().sum::<u32>() != 0 {
                        let key = if model.alive { "unfaked-sibling-affected" } else { "not-restored-after-injector" };
                        res.violations.push(Violation { prop: "C14", key: key.into(), step, what: format!("await of f{f}({arg}) (not faked) gave {val:?} in {polls} poll(s), body ran {body_d} time(s), value expressions evaluated {}; expected {want:?} in {wpolls} poll(s), body once", evals_d.iter().sum::<u32>()) });
                    }
                }
            }
            if f == 7 && drops_d != 1 {
                res.violations.push(Violation { prop: "C14", key: "argument-drop-count".into(), step, what: format!("the argument of f7 was dropped {drops_d} time(s) during one await") });
            }
        }
    }
    // an await nested in another async fn
    let (v, _) = block_on(outer0(5));
    let want = match model.stacks[0].last() {
        Some(fl) => faked_value(0, *fl).parse::<u32>().unwrap() + 1000,
        None => 1006,
    };
    fnv(&mut res.digest, &v.to_le_bytes());
    if v != want {
        res.violations.push(Violation { prop: "C14", key: "nested-await-wrong-value".into(), step, what: format!("outer(5) awaiting f0 gave {v}, expected {want}") });
    }
}

pub fn run_history(hist: &[Op], second_thread: bool) -> Res {
    envx::reset();
    let mut res = Res { violations: Vec::new(), digest: 0xcbf29ce484222325, steps: 0 };
    let mut model = Model::default();
    let mut idx = 0usize;
    while idx < hist.len() {
        let r = catch_unwind(AssertUnwindSafe(|| {
            let mut injector = InjectorPP::new();
            loop {
                let op = hist[idx];
                idx += 1;
                res.steps += 1;
                vkit::isolate::set_progress(idx as u64);
                match op {
                    Op::Fake(f, v) => {
                        install(&mut injector, f, v);
                        model.step(&op);
                        observe(&model, &mut res, idx, second_thread);
                    }
                    Op::ValuePanic(f) => {
                        // the failure of one evaluation is the user's own panic, delivered to the awaiting
                        // code; it must not change what any later await (this thread or another) observes
                        let fl = *model.stacks[f as usize].last().expect("enabled only while faked");
                        let slot = eval_slot(f, fl);
                        PANIC_NEXT[slot].store(true, SeqCst);
                        let r = catch_unwind(|| await_one(f as usize, 3));
                        let consumed = !PANIC_NEXT[slot].swap(false, SeqCst);
                        match r {
                            Err(p) if payload_text(p.as_ref()).starts_with("value expression fails") => {}
                            Err(p) => res.violations.push(Violation { prop: "C14", key: "value-panic-replaced".into(), step: idx, what: format!("the value expression of faked f{f} panicked; the awaiting code saw a different panic: {}", payload_text(p.as_ref())) }),
                            Ok((val, _)) => {
                                let key = if consumed { "value-panic-swallowed" } else { "value-not-freshly-evaluated-per-await" };
                                res.violations.push(Violation { prop: "C14", key: key.into(), step: idx, what: format!("await of faked f{f} whose value expression panics at this await completed with {val:?}") });
                            }
                        }
                        observe(&model, &mut res, idx, second_thread);
                    }
                    Op::Unmet => {
                        injector
                            .when_called(inj::func!(sync_helper, fn() -> u32))
                            .will_execute(inj::fake!(func_type: fn() -> u32, returns: 0x5F, times: 1000000000));
                        model.step(&op);
                        observe(&model, &mut res, idx, second_thread);
                    }
                    Op::Drop => return,
                    Op::Panic => panic!("user panic inside the injector's scope"),
                }
                if idx == hist.len() {
                    return;
                }
            }
        }));
        let unmet_pending = model.unmet;
        model.step(&Op::Drop);
        if let Err(p) = &r {
            let m = payload_text(p.as_ref());
            // the verification panic of the pending expectation is what the history asked for (its wording is C06's)
            if !m.starts_with("user panic") && !(unmet_pending && m.contains("1000000000")) {
                res.violations.push(Violation { prop: "C14", key: "unexpected-panic".into(), step: idx, what: format!("lifetime ended with an unexpected panic: {m}") });
            }
        }
        vkit::isolate::set_progress(idx as u64 | 0x2000);
        observe(&model, &mut res, idx, second_thread);
        if envx::MOUNTED && !envx::owned_pages().is_empty() {
            res.violations.push(Violation { prop: "C12", key: "mapping-leaked".into(), step: idx, what: "trampoline mappings left after the lifetime".into() });
        }
    }
    res
}
