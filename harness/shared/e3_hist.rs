//! E3, install-history family (C02, C03, C12, C17): every sequence over
//! {Install(target, flavour), DropInjector, PanicHere} up to a depth, executed on the real code,
//! compared step by step with a reference model ("stack of behaviours per target").
use crate::e3_core::*;
use crate::envx;
use crate::inj::interface::injector::*;
use std::panic::{catch_unwind, AssertUnwindSafe};
use vkit::arena;

#[derive(Clone, Copy, PartialEq, Eq, Hash, Debug)]
pub enum Op {
    Install(T, K),
    /// the injector goes out of scope normally
    Drop,
    /// user code panics while the injector is alive; the panic is caught outside its scope
    Panic,
    /// an installation the library must refuse or cannot complete (0 signature mismatch, 1 null
    /// pointer, 2 boolean on a non-bool function, 3 no memory for the trampoline, 4 mprotect
    /// fails); its panic propagates out of the injector's scope
    Refuse(u8),
}

pub fn op_name(o: &Op) -> String {
    match o {
        Op::Install(t, k) => format!("Install({t:?},{k:?})"),
        Op::Drop => "Drop".into(),
        Op::Panic => "PanicHere".into(),
        Op::Refuse(k) => format!("RefusedInstall({})", REFUSALS[*k as usize]),
    }
}

pub const REFUSALS: [&str; 8] = ["signature-mismatch", "null-pointer", "boolean-on-non-bool", "allocation-exhausted", "mprotect-fails", "mprotect-fails-persistently", "allocation-exhausted-forced-boolean", "mprotect-fails-on-second-page-of-straddling-target"];

/// entry address of the function a refused installation of kind `k` names
pub fn refusal_target(w: &World, k: u8) -> u64 {
    match k {
        5 => RT_ADDR + 0x40,
        6 => w.addr[T::B1 as usize],
        7 => RS_ADDR,
        _ => w.addr[T::F1 as usize],
    }
}

/// The alphabet, simplest first (so the first counterexample is also the shortest).
pub fn alphabet_r(with_fs: bool, small: bool, refusals: bool) -> Vec<Op> {
    let mut v = alphabet(with_fs, small);
    if refusals {
        for k in 0..8 {
            v.push(Op::Refuse(k));
        }
    }
    v
}

pub fn alphabet(with_fs: bool, small: bool) -> Vec<Op> {
    let mut v = vec![
        Op::Install(T::F0, K::RawA),
        Op::Drop,
        Op::Install(T::F0, K::RawB),
        Op::Install(T::F1, K::RawA),
        Op::Panic,
        Op::Install(T::B0, K::BoolT),
        Op::Install(T::G, K::RawA),
        Op::Install(T::C, K::RawA),
        Op::Install(T::A0, K::AsyncV1),
    ];
    if !small {
        v.extend([
            Op::Install(T::F0, K::Fake),
            Op::Install(T::F0, K::Unchecked),
            Op::Install(T::F1, K::Closure),
            Op::Install(T::B0, K::BoolF),
            Op::Install(T::B1, K::BoolF),
            Op::Install(T::B0, K::RawA),
            Op::Install(T::F0, K::FakeTimesUnmet),
            Op::Install(T::G, K::Closure),
            Op::Install(T::A0, K::AsyncV2),
        ]);
    }
    if with_fs {
        v.push(Op::Install(T::FS, K::RawA));
        if !small {
            v.push(Op::Install(T::FS, K::RawB));
            v.push(Op::Install(T::TH, K::RawA));
            v.push(Op::Install(T::P1, K::RawA));
            v.push(Op::Install(T::P0, K::RawA));
            v.push(Op::Install(T::PA, K::RawA));
            v.push(Op::Install(T::TJ, K::RawA));
        }
    }
    v
}

/// Reference model: per target the stack of installed flavours (top = in effect).
#[derive(Clone, Default, PartialEq, Eq, Hash, Debug)]
pub struct Model {
    pub alive: bool,
    pub stacks: [Vec<K>; NT],
    pub lifetimes: u32,
}

impl Model {
    pub fn enabled(&self, o: &Op) -> bool {
        match o {
            Op::Install(..) | Op::Refuse(_) => true, // creates the injector when none is alive
            Op::Drop | Op::Panic => self.alive,
        }
    }
    pub fn step(&mut self, o: &Op) {
        match o {
            Op::Install(t, k) => {
                if !self.alive {
                    self.alive = true;
                    self.lifetimes += 1;
                }
                self.stacks[*t as usize].push(*k);
            }
            Op::Drop | Op::Panic | Op::Refuse(_) => {
                if let Op::Refuse(_) = o {
                    if !self.alive {
                        self.lifetimes += 1;
                    }
                }
                self.alive = false;
                for s in self.stacks.iter_mut() {
                    s.clear();
                }
            }
        }
    }
    pub fn expect(&self, t: T) -> u32 {
        match self.stacks[t as usize].last() {
            Some(k) => faked(t, *k),
            None => orig(t),
        }
    }
    pub fn live_installs(&self) -> usize {
        self.stacks.iter().map(|s| s.len()).sum()
    }
}

#[derive(Clone, Debug)]
pub struct Violation {
    pub prop: &'static str,
    pub key: String,
    pub step: usize,
    pub what: String,
}

pub struct HistResult {
    pub violations: Vec<Violation>,
    /// digest of API-level observations (comparable between mounted and unmodified builds)
    pub digest_api: u64,
    /// digest of environment-level observations (mounted build only)
    pub digest_env: u64,
    pub steps: u32,
}

pub struct Opts {
    pub with_fs: bool,
    /// C03: hash every executable mapping of the process after every step
    pub full_text_snapshot: bool,
    /// C17: watch code bytes at every OS call
    pub flush_oracle: bool,
}

fn text_snapshot() -> Vec<(u64, u64, u64)> {
    // (start, end, hash) of every readable executable mapping except trampolines (rwx anonymous)
    let mut v = Vec::new();
    for m in vkit::proc::maps() {
        if !m.perms.starts_with('r') || m.perms.as_bytes()[2] != b'x' {
            continue;
        }
        if m.path == "[vsyscall]" || m.path == "[vvar]" {
            continue;
        }
        if m.path.is_empty() && m.perms.starts_with("rwx") && !(m.start >= ARENA && m.end <= ARENA + ARENA_LEN) {
            continue; // a trampoline page
        }
        let bytes = unsafe { arena::read(m.start, (m.end - m.start) as usize) };
        let mut h = 0xcbf29ce484222325u64;
        // page-wise so that a difference can be localised
        for (i, page) in bytes.chunks(4096).enumerate() {
            let mut ph = 0xcbf29ce484222325u64;
            fnv(&mut ph, page);
            v.push((m.start + 4096 * i as u64, m.start + 4096 * (i as u64 + 1), ph));
            let _ = &mut h;
        }
    }
    v
}

/// Where (target entry slots) bytes may differ from the pre-image while the model says an
/// installation is live.
fn allowed_diff(w: &World, m: &Model, addr: u64) -> bool {
    for &t in ALL_T.iter() {
        if !m.stacks[t as usize].is_empty() {
            let a = w.addr[t as usize];
            if addr >= a && addr < a + 16 {
                return true;
            }
        }
    }
    false
}

struct Ctx<'a> {
    w: &'a World,
    o: &'a Opts,
    model: Model,
    res: HistResult,
    step: usize,
    phase: u64,
    text0: Vec<(u64, u64, u64)>,
}

impl Ctx<'_> {
    fn viol(&mut self, prop: &'static str, key: &str, what: String) {
        self.res.violations.push(Violation { prop, key: key.to_string(), step: self.step, what });
    }

    /// After every operation: call everything, look at every byte we know about.
    fn observe(&mut self) {
        let w = self.w;
        vkit::isolate::set_progress(self.step as u64 | self.phase);
        // 1. behaviour of every target (C02) and of non-targets (C03)
        for &t in ALL_T.iter() {
            if matches!(t, T::FS | T::TH | T::P0 | T::P1 | T::PA | T::TJ) && !w.with_fs {
                continue;
            }
            let got = w.call(t);
            let want = self.model.expect(t);
            fnv(&mut self.res.digest_api, &got.to_le_bytes());
            if got != want && matches!(self.model.stacks[t as usize].last(), Some(K::BoolT | K::BoolF)) {
                self.viol("C10", "forced-boolean-wrong-value", format!("call of {t:?} (forced boolean) returned {got:#x}, requested {want:#x}"));
            }
            if got != want {
                let key = if self.model.alive { "latest-installation-not-in-effect" } else { "not-restored-behaviour" };
                self.viol("C02", key, format!("call of {t:?} returned {got:#x}, reference model says {want:#x}"));
            }
        }
        let nt = w.call_non_targets();
        fnv(&mut self.res.digest_api, &nt.len().to_le_bytes());
        if nt != World::non_target_expect() {
            self.viol("C03", "non-target-behaviour", format!("non-target functions returned {nt:x?}, expected {:x?}", World::non_target_expect()));
        }
        // 2. bytes: arena (byte exact), entries of as-linked targets
        let now = unsafe { arena::read(ARENA, ARENA_LEN as usize) };
        let diffs = vkit::flush::diff_positions(&now, &w.arena_pre);
        for i in diffs {
            let (b, p) = (now[i], w.arena_pre[i]);
            {
                let addr = ARENA + i as u64;
                if !allowed_diff(w, &self.model, addr) {
                    let live = self.model.alive;
                    if live {
                        self.viol("C03", "byte-outside-entry-slot", format!("arena byte {addr:#x} changed ({p:#04x} -> {b:#04x}) outside the 16-byte entry slot of any faked function"));
                    } else {
                        self.viol("C02", "not-restored-bytes", format!("arena byte {addr:#x} is {b:#04x}, was {p:#04x} before the first injector"));
                        self.viol("C03", "byte-left-modified", format!("arena byte {addr:#x} is {b:#04x}, was {p:#04x} before the first injector"));
                    }
                    break;
                }
            }
        }
        for &t in &[T::G, T::C, T::A0, T::PA] {
            let img = w.image(t);
            let same = img == w.pre[t as usize];
            fnv(&mut self.res.digest_api, &[same as u8]);
            if self.model.stacks[t as usize].is_empty() {
                if !same {
                    self.viol("C02", "not-restored-bytes", format!("entry of {t:?} is {:02x?}, pre-image {:02x?}", &img[..16], &w.pre[t as usize][..16]));
                }
            } else if img[16..] != w.pre[t as usize][16..] {
                self.viol("C03", "byte-outside-entry-slot", format!("bytes beyond the 16-byte entry slot of {t:?} changed"));
            }
        }
        // 3. every executable mapping (C03)
        if self.o.full_text_snapshot {
            let snap = text_snapshot();
            for (a, b, h) in &snap {
                if let Some((_, _, h0)) = self.text0.iter().find(|(a0, _, _)| a0 == a) {
                    if h != h0 {
                        // a page that holds a live target entry may differ
                        let holds_live = ALL_T.iter().any(|&t| {
                            !self.model.stacks[t as usize].is_empty() && {
                                let e = w.addr[t as usize];
                                e + 16 > *a && e < *b
                            }
                        });
                        if !holds_live {
                            self.viol("C03", "text-page-modified", format!("executable page {a:#x} differs from its initial content and holds no live target entry"));
                        }
                    }
                }
            }
        }
        // 4. environment (mounted build): mapping discipline (C12)
        if envx::MOUNTED {
            for e in envx::errors() {
                if e.starts_with("machinery") {
                    self.viol("MACHINERY", "env", e);
                } else {
                    // an unmap aimed at executable memory the injector does not own takes code away
                    if let Some(a) = e.strip_prefix("munmap(0x").and_then(|r| r.split(',').next()).and_then(|h| u64::from_str_radix(h, 16).ok()) {
                        if e.contains("not a live mapping") && vkit::proc::maps().iter().any(|m| m.start <= a && a < m.end && m.perms.as_bytes().get(2) == Some(&b'x')) {
                            self.viol("C03", "foreign-code-unmapped", format!("{e}: the range is executable memory that is not the injector's"));
                        }
                    }
                    self.viol("C12", "bad-unmap", e);
                }
            }
            let owned = envx::owned_pages();
            let pages: u64 = owned.iter().map(|(_, l)| l / 4096).sum();
            fnv(&mut self.res.digest_env, &pages.to_le_bytes());
            let want = self.model.live_installs() as u64;
            // more mappings than live installations is a leak; fewer is not a violation (an
            // installation need not own a mapping at all: a fake within rel32 reach of the entry can
            // be reached without a trampoline) -- a mapping released too early shows as wrong behaviour
            if pages > want {
                self.viol("C12", "mapping-leaked", format!("{pages} injector-owned trampoline page(s) mapped, {want} live installation(s)"));
            }
        }
    }
}

/// Flush oracle (C17): see `vkit::flush::check`.
fn check_flushes(ctx: &mut Ctx, log: &[envx::Call], before: &[Vec<u8>], after: &[Vec<u8>], watch: &[(u64, u64)], api: &str) {
    let pts: Vec<vkit::flush::Point> = log
        .iter()
        .map(|c| vkit::flush::Point { is_flush: c.kind == envx::Kind::Flush, a: c.a, b: c.b, snap: c.snap.as_deref(), watch: &c.watch })
        .collect();
    if let Some((key, what)) = vkit::flush::check(&pts, before, after, watch, api) {
        ctx.viol("C17", key, what);
    }
}

fn watch_regions(w: &World) -> Vec<(u64, u64)> {
    let mut v = vec![(SLOT0, 0x100), (PACKED, 0x20), (FS_ADDR - 0x20, 0x40)];
    for &t in &[T::G, T::C, T::A0] {
        v.push((w.addr[t as usize], IMG as u64));
    }
    v
}

fn snapshot_now() -> Vec<Vec<u8>> {
    envx::watch_snapshot()
}

/// An installation on F1 that the library must refuse / cannot complete.
fn refused_install(w: &World, injector: &mut InjectorPP, k: u8) {
    use crate::inj;
    let a = w.addr[T::F1 as usize];
    let f1: fn() -> u32 = unsafe { std::mem::transmute::<usize, fn() -> u32>(a as usize) };
    match k {
        0 => injector.when_called(inj::func!(f1, fn() -> u32)).will_execute_raw(inj::func!(fk_g_a, fn(u32) -> u32)),
        1 => injector.when_called(inj::func!(f1, fn() -> u32)).will_execute_raw(unsafe { FuncPtr::new(std::ptr::null(), std::any::type_name::<fn() -> u32>()) }),
        2 => injector.when_called(inj::func!(f1, fn() -> u32)).will_return_boolean(true),
        3 => {
            envx::fail_mmap_from(Some(0));
            injector.when_called(inj::func!(f1, fn() -> u32)).will_execute_raw(inj::func!(fk_f1_a, fn() -> u32))
        }
        4 => {
            envx::fail_mprotect_at(Some(0));
            injector.when_called(inj::func!(f1, fn() -> u32)).will_execute_raw(inj::func!(fk_f1_a, fn() -> u32))
        }
        6 => {
            // no memory for the trampoline of a forced boolean
            envx::fail_mmap_from(Some(0));
            let b1: fn() -> bool = unsafe { std::mem::transmute::<usize, fn() -> bool>(w.addr[T::B1 as usize] as usize) };
            injector.when_called(inj::func!(b1, fn() -> bool)).will_return_boolean(true)
        }
        7 => {
            // the entry straddles two pages; the second one refuses to become writable
            envx::fail_mprotect_range(Some((RS_BASE + 0x1000, RS_BASE + 0x2000)));
            let rs: fn() -> u32 = unsafe { std::mem::transmute::<usize, fn() -> u32>(RS_ADDR as usize) };
            injector.when_called(inj::func!(rs, fn() -> u32)).will_execute_raw(inj::func!(fk_f1_a, fn() -> u32))
        }
        _ => {
            // the page of this target (a page of its own) refuses to become writable, now and
            // while the panic unwinds
            envx::fail_mprotect_range(Some((RT_ADDR, RT_ADDR + 0x1000)));
            let rt: fn() -> u32 = unsafe { std::mem::transmute::<usize, fn() -> u32>((RT_ADDR + 0x40) as usize) };
            injector.when_called(inj::func!(rt, fn() -> u32)).will_execute_raw(inj::func!(fk_f1_a, fn() -> u32))
        }
    }
}

/// Execute one history on the implementation and judge every step.
pub fn run_history(w: &World, o: &Opts, hist: &[Op]) -> HistResult {
    envx::reset();
    w.reprotect();
    let watch = if o.flush_oracle && envx::MOUNTED { watch_regions(w) } else { Vec::new() };
    envx::set_watch(watch.clone());
    let mut ctx = Ctx {
        w,
        o,
        model: Model::default(),
        res: HistResult { violations: Vec::new(), digest_api: 0xcbf29ce484222325, digest_env: 0xcbf29ce484222325, steps: 0 },
        step: 0,
        phase: 0x1000,
        text0: if o.full_text_snapshot { text_snapshot() } else { Vec::new() },
    };
    let mut idx = 0usize;
    while idx < hist.len() {
        // one injector lifetime; it ends by Drop, by Panic, or with the history (implicit drop)
        ctx.phase = 0x1000;
        let mut refused: Option<u8> = None;
        let r = catch_unwind(AssertUnwindSafe(|| {
            let mut injector = InjectorPP::new();
            loop {
                let op = hist[idx];
                idx += 1;
                ctx.step = idx;
                ctx.res.steps += 1;
                vkit::isolate::set_progress(idx as u64);
                match op {
                    Op::Install(t, k) => {
                        let before = if watch.is_empty() { Vec::new() } else { snapshot_now() };
                        let _ = envx::take_log();
                        install(w, &mut injector, t, k);
                        ctx.model.step(&op);
                        if !watch.is_empty() {
                            let log = envx::take_log();
                            let after = snapshot_now();
                            check_flushes(&mut ctx, &log, &before, &after, &watch, &op_name(&op));
                        }
                        ctx.observe();
                    }
                    Op::Drop => return false,
                    Op::Panic => panic!("user panic inside the injector's scope"),
                    Op::Refuse(k) => {
                        // the refused target is F1 (its neighbour F0 may carry a live fake)
                        let rtarget = refusal_target(w, k);
                        let before = unsafe { vkit::arena::read(rtarget, IMG) };
                        let r = catch_unwind(AssertUnwindSafe(|| refused_install(w, &mut injector, k)));
                        envx::fail_mmap_from(None);
                        envx::fail_mprotect_at(None);
                        // a persistent mprotect failure stays in force until the lifetime is over
                        match r {
                            Ok(()) => {
                                ctx.viol("C05", &format!("refusal-missing:{}", REFUSALS[k as usize]), format!("an installation that must fail ({}) returned normally", REFUSALS[k as usize]));
                                return true;
                            }
                            Err(p) => {
                                let msg = payload_text(p.as_ref());
                                // only the classes the properties name are judged: signature mismatch / null pointer
                                let l = msg.to_lowercase();
                                let ok = match k {
                                    0 | 2 => l.contains("signature") && l.contains("mismatch"),
                                    1 => l.contains("null"),
                                    _ => true,
                                };
                                if !ok {
                                    ctx.viol("C09", &format!("refusal-message:{}", REFUSALS[k as usize]), format!("refused installation ({}) panicked with {msg:?}, expected a signature-mismatch / null-pointer message", REFUSALS[k as usize]));
                                }
                                if unsafe { vkit::arena::read(rtarget, IMG) } != before {
                                    ctx.viol("C05", &format!("refused-target-modified:{}", REFUSALS[k as usize]), format!("the refused installation ({}) changed the bytes of its target", REFUSALS[k as usize]));
                                    if k < 3 {
                                        ctx.viol(if k == 2 { "C10" } else { "C09" }, &format!("refused-target-modified:{}", REFUSALS[k as usize]), format!("the refusal ({}) was raised after the target had been modified", REFUSALS[k as usize]));
                                    }
                                }
                                refused = Some(k);
                                std::panic::resume_unwind(p);
                            }
                        }
                    }
                }
                if idx == hist.len() {
                    return true;
                }
            }
        }));
        let unmet_pending = ctx.model.stacks[T::F0 as usize].contains(&K::FakeTimesUnmet);
        // the lifetime is over (scope exit, unwinding, or end of history)
        vkit::isolate::set_progress(idx as u64 | 0x2000);
        ctx.model.step(&Op::Drop);
        ctx.phase = 0x2000;
        match &r {
            Ok(_) if unmet_pending => {
                fnv(&mut ctx.res.digest_api, b"ok");
                ctx.viol("C06", "scope-exit-silent-although-count-differs", "an injector with an unmet call-count expectation went out of scope normally without panicking".into());
            }
            Ok(_) => fnv(&mut ctx.res.digest_api, b"ok"),
            Err(p) => {
                let msg = payload_text(p.as_ref());
                fnv(&mut ctx.res.digest_api, b"panic");
                let verification = unmet_pending && msg.contains("1000000000");
                if !msg.starts_with("user panic") && refused.is_none() && !verification {
                    ctx.viol("C05", "unexpected-panic", format!("lifetime ended with a panic the history did not ask for: {msg}"));
                }
                envx::fail_mprotect_range(None);
                if refused == Some(4) || refused == Some(5) || refused == Some(7) {
                    // an installation that failed in mprotect abandons its trampoline: outside every
                    // given property; give the page back so that later histories start clean
                    envx::forget_owned();
                }
            }
        }
        if !watch.is_empty() {
            // restoration: everything that changed while the injector went away must be flushed
            let log = envx::take_log();
            let after = snapshot_now();
            // the state at "API entry" is the first logged point (watch is taken before each call)
            let b0 = log.first().map(|c| c.watch.clone()).unwrap_or_else(|| after.clone());
            check_flushes(&mut ctx, &log, &b0, &after, &watch, "drop of the injector");
        }
        ctx.observe();
    }
    ctx.res
}


/// C12, long run: `n` create/install/drop cycles of a mixed lifetime (all install kinds, a repeated
/// target, every third lifetime ending by unwinding); the executable anonymous mappings of the
/// process must be the same afterwards as before, and while a lifetime is in progress the number
/// of rwx anonymous pages must equal the number of live installations.
pub fn run_cycles(w: &World, n: usize) -> (Vec<Violation>, u64) {
    fn exec_anon() -> Vec<(u64, u64, String)> {
        // the harness's own synthetic code regions are anonymous too (and the crate leaves the
        // pages of faked functions rwx, which splits them): not the injector's mappings
        vkit::proc::maps()
            .into_iter()
            .filter(|m| m.path.is_empty() && m.perms.as_bytes().get(2) == Some(&b'x'))
            .filter(|m| !((m.start >= ARENA && m.end <= ARENA + ARENA_LEN) || (m.start >= PA_ADDR && m.end <= PA_ADDR + 0x1000)))
            .map(|m| (m.start, m.end, m.perms))
            .collect()
    }
    let mut viols = Vec::new();
    envx::reset();
    w.reprotect();
    let before = exec_anon();
    // trampolines are the rwx anonymous pages outside the harness's own code regions (the crate
    // leaves the pages of faked functions rwx, and the arena pages are anonymous too)
    fn tramp_pages() -> u64 {
        vkit::proc::maps()
            .iter()
            .filter(|m| m.perms.as_bytes().get(2) == Some(&b'x') && m.path.is_empty())
            .map(|m| {
                let (mut s, e) = (m.start, m.end);
                let mut n = 0;
                while s < e {
                    let own = (s >= ARENA && s < ARENA + ARENA_LEN) || (s >= PA_ADDR && s < PA_ADDR + 0x1000);
                    if !own {
                        n += 1;
                    }
                    s += 4096;
                }
                n
            })
            .sum()
    }
    let rwx_before = tramp_pages();
    let lifetime: [(T, K); 7] = [(T::F0, K::RawA), (T::F0, K::RawB), (T::B0, K::BoolT), (T::G, K::Closure), (T::C, K::RawA), (T::A0, K::AsyncV1), (T::F1, K::Closure)];
    let mut steps = 0u64;
    for c in 0..n {
        let r = catch_unwind(AssertUnwindSafe(|| {
            let mut injector = InjectorPP::new();
            for (t, k) in lifetime.iter() {
                install(w, &mut injector, *t, *k);
                steps += 1;
            }
            if c % 997 == 0 {
                let pages = tramp_pages().saturating_sub(rwx_before);
                if pages > lifetime.len() as u64 {
                    viols.push(Violation { prop: "C12", key: "rwx-pages-during-lifetime".into(), step: c, what: format!("cycle {c}: {pages} executable anonymous page(s) beyond the baseline while {} installations are live", lifetime.len()) });
                }
            }
            if c % 3 == 2 {
                panic!("user panic inside the injector's scope");
            }
        }));
        let _ = r;
        steps += 1;
        if envx::MOUNTED && c % 64 == 0 {
            let _ = envx::take_log();
            for e in envx::errors() {
                viols.push(Violation { prop: "C12", key: "bad-unmap".into(), step: c, what: e });
            }
            if !envx::owned_pages().is_empty() {
                viols.push(Violation { prop: "C12", key: "mapping-leaked".into(), step: c, what: format!("cycle {c}: {} mapping(s) still owned after the lifetime", envx::owned_pages().len()) });
                break;
            }
        }
        if !viols.is_empty() {
            break;
        }
    }
    let after = exec_anon();
    if after != before {
        let extra: Vec<_> = after.iter().filter(|m| !before.contains(m)).take(3).collect();
        let missing: Vec<_> = before.iter().filter(|m| !after.contains(m)).take(3).collect();
        viols.push(Violation { prop: "C12", key: "executable-anonymous-mappings-changed".into(), step: n, what: format!("after {n} cycles the executable anonymous mappings differ from before: {} now vs {} before; new {extra:x?}, gone {missing:x?}", after.len(), before.len()) });
    }
    for &t in ALL_T.iter() {
        if w.image(t) != w.pre[t as usize] {
            viols.push(Violation { prop: "C02", key: "not-restored-bytes".into(), step: n, what: format!("after {n} cycles the entry of {t:?} differs from its pre-image") });
        }
    }
    (viols, steps)
}
