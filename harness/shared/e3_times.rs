//! E3, call-count family (C06 sequential part, C07, part of C05): every sequence over
//! {Begin, MatchingCall, NonMatchingCall (each caught inside the scope or propagating out of it),
//!  EndScope, UserPanic, OutsideCall} up to a depth, for one `fake!(…, times: N)` source line that
//! is re-evaluated by every lifetime of the history.  Each history runs in a fresh process image.
use crate::e3_core::{fnv, payload_text};
use crate::envx;
use crate::inj;
use crate::inj::interface::injector::*;
use std::panic::{catch_unwind, AssertUnwindSafe};

#[inline(never)]
pub fn tt(x: u32) -> u32 {
    let y = std::hint::black_box(x);
    std::hint::black_box(y.wrapping_add(10))
}

#[derive(Clone, Copy, PartialEq, Eq, Hash, Debug)]
pub enum Op {
    /// create an injector and evaluate the shared `fake!(…, times: N)` line
    Begin,
    /// matching call, a panic is caught inside the injector's scope
    M,
    /// non-matching call (fails `when`), a panic is caught inside the scope
    X,
    /// matching call whose panic, if any, propagates out of the scope (caught outside)
    Mu,
    /// non-matching call whose panic propagates out of the scope
    Xu,
    /// the injector goes out of scope normally (call-count verification happens here)
    End,
    /// user panic inside the scope
    Panic,
    /// a call made while no injector exists
    Outside,
    /// evaluate the shared `fake!` line now and keep the pair; the next Begin installs that pair
    /// instead of evaluating the line itself (evaluation decoupled from installation)
    Build,
}

pub const ALPHABET: [Op; 9] = [Op::Begin, Op::M, Op::End, Op::X, Op::Outside, Op::Mu, Op::Panic, Op::Xu, Op::Build];

pub fn op_to_str(o: &Op) -> &'static str {
    match o {
        Op::Begin => "B",
        Op::M => "M",
        Op::X => "X",
        Op::Mu => "Mu",
        Op::Xu => "Xu",
        Op::End => "E",
        Op::Panic => "P",
        Op::Outside => "O",
        Op::Build => "K",
    }
}
pub fn op_from_str(s: &str) -> Option<Op> {
    ALPHABET.iter().copied().find(|o| op_to_str(o) == s)
}

pub const FAKE_VAL: u32 = 0xFA;
pub static BIG_N: std::sync::atomic::AtomicUsize = std::sync::atomic::AtomicUsize::new(0);

/// The one source line per N.  All lifetimes of a history go through the same line, whether the
/// pair is installed at once or kept for a later lifetime.
#[inline(never)]
fn build_site(n: usize) -> (FuncPtr, CallCountVerifier) {
    match n {
        0 => inj::fake!(func_type: fn(x: u32) -> u32, when: x == 1, returns: 0xFA, times: 0),
        1 => inj::fake!(func_type: fn(x: u32) -> u32, when: x == 1, returns: 0xFA, times: 1),
        2 => inj::fake!(func_type: fn(x: u32) -> u32, when: x == 1, returns: 0xFA, times: 2),
        3 => inj::fake!(func_type: fn(x: u32) -> u32, when: x == 1, returns: 0xFA, times: 3),
        // large budgets (`--big`): one more source line whose N is read from a static, so that budgets
        // around 2^8 and 2^16 can be exercised (a narrower counter or a packed word would show there)
        _ => inj::fake!(func_type: fn(x: u32) -> u32, when: x == 1, returns: 0xFA, times: crate::e3_times::BIG_N.load(std::sync::atomic::Ordering::SeqCst)),
    }
}

#[inline(never)]
fn install_site(injector: &mut InjectorPP, n: usize, spare: &mut Option<(FuncPtr, CallCountVerifier)>) {
    let pair = spare.take().unwrap_or_else(|| build_site(n));
    injector.when_called(inj::func!(fn(tt)(u32) -> u32)).will_execute(pair);
}

#[inline(never)]
fn tt_plain_fake(_x: u32) -> u32 {
    std::hint::black_box(0xFB)
}

/// Post-mortem (C05): a *fresh thread* must be able to create an injector, use it and let it go.
fn fresh_thread_can_use_injector() -> Result<(), String> {
    let (tx, rx) = std::sync::mpsc::channel();
    std::thread::spawn(move || {
        let r = catch_unwind(|| {
            let mut injector = InjectorPP::new();
            injector.when_called(inj::func!(fn(tt)(u32) -> u32)).will_execute_raw(inj::func!(fn(tt_plain_fake)(u32) -> u32));
            let during = tt(1);
            drop(injector);
            (during, tt(1))
        });
        let _ = tx.send(r.map_err(|p| payload_text(p.as_ref())));
    });
    match rx.recv_timeout(std::time::Duration::from_secs(10)) {
        Ok(Ok((0xFB, 11))) => Ok(()),
        Ok(Ok((a, b))) => Err(format!("a fresh thread's injector saw {a:#x} while installed and {b} afterwards (expected 0xfb and 11)")),
        Ok(Err(m)) => Err(format!("a fresh thread could not use a new injector: {m}")),
        Err(_) => Err("a fresh thread did not obtain a new injector within 10 s (the process-wide guard was not released)".into()),
    }
}

#[derive(Clone, Default, PartialEq, Eq, Hash, Debug)]
pub struct Model {
    pub alive: bool,
    /// matching calls made during the current installation
    pub count: usize,
    pub lifetimes: u32,
}

impl Model {
    pub fn enabled(&self, o: &Op) -> bool {
        match o {
            Op::Begin | Op::Outside => !self.alive,
            Op::Build => true,
            _ => self.alive,
        }
    }
}

#[derive(Debug, Clone, PartialEq, Eq)]
pub enum Seen {
    Val(u32),
    Panic(String),
    ScopeOk,
    ScopePanic(String),
}

pub struct Violation {
    pub prop: &'static str,
    pub key: String,
    pub step: usize,
    pub what: String,
}

pub struct Res {
    pub violations: Vec<Violation>,
    pub digest: u64,
    pub steps: u32,
}

/// Panic message reduced to what the properties talk about (file paths differ between builds).
fn msg_class(m: &str) -> String {
    if m.contains("more times than expected") {
        "OVER".into()
    } else if m.contains("unexpected arguments") {
        "REJECT".into()
    } else if m.contains("expected to be called") {
        format!("VERIFY{:?}", numbers_in(m))
    } else {
        // wording is not part of any property (and carries build-specific file paths)
        "OTHER".into()
    }
}

fn seen_class(s: &Seen) -> String {
    match s {
        Seen::Val(v) => format!("V{v:#x}"),
        Seen::Panic(m) => format!("P:{}", msg_class(m)),
        Seen::ScopeOk => "OK".into(),
        Seen::ScopePanic(m) => format!("SP:{}", msg_class(m)),
    }
}

fn numbers_in(s: &str) -> Vec<u64> {
    let mut v = Vec::new();
    let mut cur = String::new();
    for ch in s.chars().chain(std::iter::once(' ')) {
        if ch.is_ascii_digit() {
            cur.push(ch);
        } else if !cur.is_empty() {
            if let Ok(n) = cur.parse() {
                v.push(n);
            }
            cur.clear();
        }
    }
    v
}

/// Execute one history for the source line with budget `n`.
pub static POSTMORTEM: std::sync::atomic::AtomicBool = std::sync::atomic::AtomicBool::new(false);

pub fn run_history(n: usize, hist: &[Op], threads: bool) -> Res {
    if threads {
        let h = hist.to_vec();
        return std::thread::spawn(move || run_history_inner(n, &h)).join().expect("history thread");
    }
    run_history_inner(n, hist)
}

fn run_history_inner(n: usize, hist: &[Op]) -> Res {
    envx::reset();
    let entry = tt as *const () as u64;
    let pre = unsafe { vkit::arena::read(entry, 32) };
    let mut res = Res { violations: Vec::new(), digest: 0xcbf29ce484222325, steps: 0 };
    let mut model = Model::default();
    let mut idx = 0usize;
    let mut spare: Option<(FuncPtr, CallCountVerifier)> = None;
    // prop attribution: a mismatch in a lifetime that follows earlier activity of the same source
    // line is a C07 matter when the same lifetime would be fine as the first one; the reference
    // model *is* "every lifetime behaves like a first one", so: first lifetime -> C06, later -> C07
    let mut viol = |res: &mut Res, model: &Model, step: usize, c06key: &str, what: String| {
        let (prop, key) = if model.lifetimes <= 1 { ("C06", c06key.to_string()) } else { ("C07", format!("later-lifetime:{c06key}")) };
        res.violations.push(Violation { prop, key, step, what });
    };
    while idx < hist.len() {
        vkit::isolate::set_progress(idx as u64 + 1);
        if !model.alive {
            match hist[idx] {
                Op::Outside => {
                    idx += 1;
                    res.steps += 1;
                    for arg in [1u32, 2] {
                        let r = catch_unwind(|| tt(arg));
                        let seen = match r {
                            Ok(v) => Seen::Val(v),
                            Err(p) => Seen::Panic(payload_text(p.as_ref())),
                        };
                        fnv(&mut res.digest, seen_class(&seen).as_bytes());
                        if seen != Seen::Val(arg + 10) {
                            res.violations.push(Violation { prop: "C02", key: "not-restored-behaviour".into(), step: idx, what: format!("call with no injector alive gave {seen:?}, original is {}", arg + 10) });
                        }
                    }
                    continue;
                }
                Op::Begin => {}
                Op::Build => {
                    idx += 1;
                    res.steps += 1;
                    if let Some(old) = spare.replace(build_site(n)) {
                        std::mem::forget(old);
                    }
                    continue;
                }
                _ => {
                    // an operation of a lifetime that a propagating call panic already ended
                    idx += 1;
                    continue;
                }
            }
        }
        // one lifetime
        let mut inner: Vec<(usize, Op, Seen)> = Vec::new();
        let mut ended_normally = false;
        let mut body_done = false;
        let r = catch_unwind(AssertUnwindSafe(|| {
            let mut injector = InjectorPP::new();
            loop {
                let op = hist[idx];
                idx += 1;
                vkit::isolate::set_progress(idx as u64);
                match op {
                    Op::Begin => install_site(&mut injector, n, &mut spare),
                    Op::Build => {
                        // the line is evaluated again while an installation made from it is live
                        if let Some(old) = spare.replace(build_site(n)) {
                            std::mem::forget(old);
                        }
                    }
                    Op::M | Op::X => {
                        let arg = if op == Op::M { 1 } else { 2 };
                        let r = catch_unwind(|| tt(arg));
                        inner.push((idx, op, match r {
                            Ok(v) => Seen::Val(v),
                            Err(p) => Seen::Panic(payload_text(p.as_ref())),
                        }));
                    }
                    Op::Mu | Op::Xu => {
                        let arg = if op == Op::Mu { 1 } else { 2 };
                        // record "about to" so that a propagating panic can be attributed
                        inner.push((idx, op, Seen::Panic(String::new())));
                        let v = tt(arg);
                        inner.pop();
                        inner.push((idx, op, Seen::Val(v)));
                    }
                    Op::End => {
                        body_done = true;
                        return;
                    }
                    Op::Panic => panic!("user panic inside the injector's scope"),
                    Op::Outside => unreachable!(),
                }
                if idx == hist.len() {
                    body_done = true;
                    return; // history ends: implicit scope exit
                }
            }
        }));
        let _ = ended_normally;
        ended_normally = body_done;
        // judge the lifetime against the model
        model.alive = true;
        model.count = 0;
        model.lifetimes += 1;
        res.steps += 1;
        let mut propagated: Option<&'static str> = None; // which op let a panic out
        for (step, op, seen) in inner.iter() {
            res.steps += 1;
            fnv(&mut res.digest, format!("{}:{}", op_to_str(op), seen_class(seen)).as_bytes());
            match op {
                Op::M | Op::Mu => {
                    let admitted = model.count < n;
                    model.count += 1;
                    match (admitted, seen) {
                        (true, Seen::Val(v)) if *v == FAKE_VAL => {}
                        (true, other) => viol(&mut res, &model, *step, "matching-call-within-budget-not-admitted", format!("matching call #{} of {n} allowed gave {other:?}, expected the fake's value {FAKE_VAL:#x}", model.count)),
                        (false, Seen::Panic(_)) => {
                            if *op == Op::Mu {
                                propagated = Some("over-call");
                            }
                        }
                        (false, other) => viol(&mut res, &model, *step, "call-beyond-budget-admitted", format!("matching call #{} with a budget of {n} gave {other:?}, expected a panic at the call", model.count)),
                    }
                }
                Op::X | Op::Xu => match seen {
                    Seen::Panic(_) => {
                        if *op == Op::Xu {
                            propagated = Some("rejected-arguments");
                        }
                    }
                    other => viol(&mut res, &model, *step, "non-matching-call-not-rejected", format!("call failing `when` gave {other:?}, expected a panic")),
                },
                _ => {}
            }
        }
        // how the scope ended
        let seen_end = match &r {
            Ok(()) => Seen::ScopeOk,
            Err(p) => Seen::ScopePanic(payload_text(p.as_ref())),
        };
        fnv(&mut res.digest, format!("end:{}", seen_class(&seen_end)).as_bytes());
        let last_op = hist[idx - 1];
        match (&seen_end, propagated, last_op) {
            (Seen::ScopePanic(m), Some(_), _) => {
                // a call's own panic left the scope: exactly that panic must arrive (C05: at most one)
                if m.contains("expected to be called") {
                    res.violations.push(Violation { prop: "C05", key: "verification-panic-while-unwinding".into(), step: idx, what: format!("scope left by a propagating call panic, but the payload is the call-count verification's: {m}") });
                }
            }
            (Seen::ScopePanic(m), None, Op::Panic) => {
                if !m.starts_with("user panic") {
                    res.violations.push(Violation { prop: "C05", key: "user-panic-replaced".into(), step: idx, what: format!("user panic was replaced by: {m}") });
                }
            }
            (Seen::ScopePanic(m), None, _) => {
                // normal scope exit that panicked: must be the verification, iff count != n
                if model.count == n {
                    viol(&mut res, &model, idx, "scope-exit-panics-although-count-matches", format!("{} matching call(s) with times: {n}, yet scope exit panicked: {m}", model.count));
                } else {
                    let nums = numbers_in(m);
                    if !(nums.contains(&(n as u64)) && nums.contains(&(model.count as u64))) {
                        viol(&mut res, &model, idx, "scope-exit-message-numbers", format!("{} matching call(s) with times: {n}; the scope-exit panic does not name both numbers: {m}", model.count));
                    }
                }
            }
            (Seen::ScopeOk, Some(_), _) | (Seen::ScopeOk, None, Op::Panic) => {
                res.violations.push(Violation { prop: "C05", key: "panic-swallowed".into(), step: idx, what: "a panic raised inside the scope did not arrive outside it".into() });
            }
            (Seen::ScopeOk, None, _) => {
                if model.count != n {
                    viol(&mut res, &model, idx, "scope-exit-silent-although-count-differs", format!("{} matching call(s) with times: {n}, yet scope exit did not panic", model.count));
                }
            }
            _ => {}
        }
        model.alive = false;
        // after the lifetime: restored (bytes + behaviour), whatever the exit path
        let now = unsafe { vkit::arena::read(entry, 32) };
        if now != pre {
            let prop = if matches!(seen_end, Seen::ScopeOk) { "C02" } else { "C05" };
            res.violations.push(Violation { prop, key: "not-restored-bytes".into(), step: idx, what: format!("after the lifetime the entry of the target is {:02x?}, pre-image {:02x?}", &now[..16], &pre[..16]) });
        }
        if envx::MOUNTED {
            let owned = envx::owned_pages();
            if !owned.is_empty() {
                res.violations.push(Violation { prop: "C12", key: "mapping-leaked".into(), step: idx, what: format!("{} trampoline mapping(s) still owned after the lifetime ended", owned.len()) });
            }
        }
    }
    // a pair that was built but never installed must not be verified by its destructor
    if let Some(p) = spare.take() {
        std::mem::forget(p);
    }
    if !POSTMORTEM.load(std::sync::atomic::Ordering::Relaxed) {
        return res;
    }
    if let Err(m) = fresh_thread_can_use_injector() {
        res.violations.push(Violation { prop: "C05", key: "fresh-thread-cannot-use-injector".into(), step: idx, what: m });
    }
    res
}
