//! E3, wide lifetimes: one injector lifetime with k installations on k distinct synthetic targets,
//! for every k up to a bound, in three installation orders, with and without repeated targets, ended
//! by scope exit or by unwinding.  Histories up to depth 5 never hold more than five installations
//! alive; this family covers the other axis (how many), where capacity limits, allocator scans past
//! many live trampolines and guard book-keeping over long vectors would show.
use crate::e3_core::{as_fn0, ARENA};
use crate::envx;
use crate::inj;
use crate::inj::interface::injector::*;
use std::panic::{catch_unwind, AssertUnwindSafe};
use vkit::arena;

pub const WIDE: u64 = ARENA + 0x40_0000;
pub const WIDE_SLOTS: usize = 512;
pub const WIDE_LEN: u64 = (WIDE_SLOTS as u64) * 16;

#[inline(never)]
pub fn wk_a() -> u32 {
    std::hint::black_box(0xAA01)
}
#[inline(never)]
pub fn wk_b() -> u32 {
    std::hint::black_box(0xAA02)
}

pub struct WViol {
    pub prop: &'static str,
    pub key: String,
    pub what: String,
}

pub fn init() -> Vec<u8> {
    arena::map_fixed(WIDE, WIDE_LEN, arena::RW).expect("wide arena");
    unsafe {
        std::ptr::write_bytes(WIDE as *mut u8, 0xCC, WIDE_LEN as usize);
        for i in 0..WIDE_SLOTS {
            arena::write(WIDE + 16 * i as u64, &arena::x64_ret_const(0x5000 + i as u32, 16));
        }
    }
    assert!(arena::protect(WIDE, WIDE_LEN, arena::RX));
    unsafe { arena::read(WIDE, WIDE_LEN as usize) }
}

fn slot(i: usize) -> u64 {
    WIDE + 16 * i as u64
}

fn install(injector: &mut InjectorPP, i: usize, which: usize) {
    let a = slot(i);
    if which % 2 == 0 {
        injector.when_called(inj::func!(as_fn0(a), fn() -> u32)).will_execute_raw(inj::func!(wk_a, fn() -> u32));
    } else {
        injector.when_called(inj::func!(as_fn0(a), fn() -> u32)).will_execute_raw(inj::func!(wk_b, fn() -> u32));
    }
}

/// order 0: ascending, 1: descending, 2: stride 7 (a permutation of 0..k for every k not divisible by 7; otherwise stride 5 or 3)
pub fn order(k: usize, o: usize) -> Vec<usize> {
    match o {
        0 => (0..k).collect(),
        1 => (0..k).rev().collect(),
        _ => {
            let s = [7usize, 5, 3, 11, 13].into_iter().find(|s| k % s != 0).unwrap_or(1);
            (0..k).map(|j| (j * s) % k).collect()
        }
    }
}

/// One lifetime with k distinct targets.  dup: every fifth target is installed a second time (other fake).
/// Returns the number of installations made.
pub fn run_one(pre: &[u8], k: usize, ord: usize, dup: bool, panic_end: bool, span: usize, v: &mut Vec<WViol>) -> (u64, bool) {
    envx::reset();
    assert!(arena::protect(WIDE, WIDE_LEN, arena::RX));
    let desc = format!("k={k} order={ord} dup={dup} end={}", if panic_end { "panic" } else { "drop" });
    let mut installs = 0u64;
    // 0: installing, 1: observing, 2: scope exit
    let phase = std::cell::Cell::new(0u8);
    // targets spread over the arena: slot index = position * span (span 1: neighbours 16 bytes apart; span 8: 128 bytes)
    let idx: Vec<usize> = order(k, ord).into_iter().map(|p| p * span).collect();
    let r = catch_unwind(AssertUnwindSafe(|| {
        let mut injector = InjectorPP::new();
        let mut want: Vec<Option<u32>> = vec![None; WIDE_SLOTS];
        for (n, &i) in idx.iter().enumerate() {
            install(&mut injector, i, i);
            installs += 1;
            want[i] = Some(if i % 2 == 0 { 0xAA01 } else { 0xAA02 });
            if dup && n % 5 == 4 {
                install(&mut injector, i, i + 1);
                installs += 1;
                want[i] = Some(if (i + 1) % 2 == 0 { 0xAA01 } else { 0xAA02 });
            }
        }
        phase.set(1);
        for e in envx::errors() {
            v.push(WViol { prop: "C12", key: "wide:bad-unmap".into(), what: format!("{desc}: {e}") });
        }
        if envx::MOUNTED {
            let pages: u64 = envx::owned_pages().iter().map(|(_, l)| l / 4096).sum();
            if pages > installs {
                let key = "wide:mapping-leaked";
                v.push(WViol { prop: "C12", key: key.into(), what: format!("{desc}: {pages} injector-owned trampoline page(s) mapped while {installs} installation(s) are live") });
            }
        }
        let mut bad = 0;
        for i in 0..(k * span + 8).min(WIDE_SLOTS) {
            let got = unsafe { arena::call_u32(slot(i)) };
            let w = want[i].unwrap_or(0x5000 + i as u32);
            if got != w && bad < 3 {
                bad += 1;
                let (prop, key) = if want[i].is_some() { ("C02", "wide:installed-fake-not-in-effect") } else { ("C03", "wide:non-target-behaviour") };
                v.push(WViol { prop, key: key.into(), what: format!("{desc}: slot {i} returned {got:#x}, expected {w:#x} with all {installs} installations live") });
            }
        }
        if panic_end {
            panic!("user panic inside the injector's scope");
        }
        phase.set(2);
        drop(injector);
    }));
    let mut refused = false;
    if let Err(p) = &r {
        let m = crate::e3_core::payload_text(p.as_ref());
        if phase.get() == 0 {
            // an installation that fails loudly is allowed by every property (the allocator may give
            // up); the lifetime then ends by unwinding and everything below must still hold
            refused = true;
        } else if !m.starts_with("user panic") {
            v.push(WViol { prop: "*", key: "wide:unexpected-panic".into(), what: format!("{desc}: the lifetime panicked {} with {installs} installation(s) made: {m}", if phase.get() == 2 { "at scope exit" } else { "while its functions were called" }) });
        }
    }
    let now = unsafe { arena::read(WIDE, WIDE_LEN as usize) };
    if now != pre {
        let first = now.iter().zip(pre.iter()).position(|(a, b)| a != b).unwrap();
        v.push(WViol { prop: "C02", key: "wide:not-restored-bytes".into(), what: format!("{desc}: after the lifetime, byte {first:#x} of the target arena (slot {}) differs from its pre-image", first / 16) });
    } else {
        for i in 0..(k * span + 8).min(WIDE_SLOTS) {
            let got = unsafe { arena::call_u32(slot(i)) };
            if got != 0x5000 + i as u32 {
                v.push(WViol { prop: "C02", key: "wide:not-restored-behaviour".into(), what: format!("{desc}: after the lifetime slot {i} returned {got:#x}") });
                break;
            }
        }
    }
    for e in envx::errors() {
        v.push(WViol { prop: "C12", key: "wide:bad-unmap".into(), what: format!("{desc}: {e}") });
    }
    if envx::MOUNTED && !envx::owned_pages().is_empty() {
        v.push(WViol { prop: "C12", key: "wide:mapping-leaked".into(), what: format!("{desc}: {} mapping(s) still owned after the lifetime", envx::owned_pages().len()) });
    }
    (installs, refused)
}
